"""C09: no task outlives its TaskGroup's join.  Real TaskGroup driven by environment actions on
the virtual loop vs the Lean reactive model (monitor, `drv_c09`); oracle from the property text:
at the moment join()/__aexit__ returns or raises, every task ever placed in the group is done,
and once joined nothing can be added."""
import os
import random
from multiprocessing import Pool

from harness import taskgroup as TG
from harness.base import Results, corpus_lines

PID = 'C09'
RULE = ('case = a sequence of <=14 random environment actions (every second trace then continues '
        'with finish / external-cancel / release actions until every member has finished; every fourth has no next_done caller) on one TaskGroup (spawn member/daemon with '
        'children it spawns while being cancelled; finish None/value/raise; external cancel; slow '
        'reaction to cancellation ends; join() | __aexit__(body raised or not); cancel the '
        'joiner at any instant incl. twice; next_done() by other tasks before/during/after), all '
        'four wait policies, each action followed by running the loop to idle; the order in '
        'which _cancel_tasks iterated its set is observed and fed to the model. non-trivial = '
        'the join exit was observed and at least one member had to be cancelled by the group; '
        'distinct = distinct (policy, action list)')


def oracle(policy, actions, recs, snap):
    bad = []
    everyone = set()
    for a, rec in zip(actions, recs):
        if a[0] == 'S' and f'sr{a[1]}' not in rec['obs']:
            everyone.add(a[1])
        for o in rec['obs']:
            if o.startswith('cr'):
                pass
        # children that were actually created are visible through rec['done'] later; collect ids
    everyone |= set(snap['status'])
    for idx, (a, rec) in enumerate(zip(actions, recs)):
        exits = [o for o in rec['obs'] if o.startswith('jx')]
        for o in exits:
            if o.startswith('jxERR'):
                bad.append(('c09:join-raised-other', f'join raised {o[6:]}'))
            # tasks in the group at this moment = spawned (incl. children) up to this step
            present = {i for i in everyone if _spawned_by(i, idx, actions, recs)}
            alive = sorted(i for i in present if i not in rec['done'])
            if alive:
                if a[0] == 'K' and rec.get('pre_sweep'):
                    key = 'c09:joiner-cancelled-while-awaiting-cancelled-members'
                else:
                    key = 'c09:member-alive-at-join-exit'
                bad.append((key, f'join exit ({o}) at step {idx} ({a}) with members {alive} '
                                 f'still running'))
    mic = snap.get('micro')
    if mic and mic['exit_seen'] and mic['alive_at_exit']:
        bad.append(('c09:member-alive-at-join-exit',
                    f'tasks {mic["alive_at_exit"]} that the group had accepted (adds attempted at '
                    f'every loop iteration while the join was finishing: accepted {mic["accepted"]}) '
                    f'were still running when join returned'))
    sj = snap.get('second_join')
    if sj and sj['finished'] and sj['alive']:
        bad.append(('c09:member-alive-at-second-join-exit',
                    f'a join() called by another task while the first join was {sj["first_join"]} '
                    f'(its task done: {sj["first_done"]}) finished although tasks {sj["alive"]} of '
                    f'the group were still running'))
    if str(snap.get('add_after_join', '')).startswith('accepted'):
        bad.append(('c09:add-after-join', 'a task was accepted by a group whose join completed: '
                    + snap['add_after_join']))
    joined_at = next((i for i, r in enumerate(recs) if r['joined']), None)
    if joined_at is not None:
        for idx in range(joined_at + 1, len(actions)):
            a = actions[idx]
            if a[0] == 'S' and f'sr{a[1]}' not in recs[idx]['obs']:
                bad.append(('c09:add-after-join', f'step {idx} {a}: spawn accepted after join completed'))
    bad += join_stuck('c09:join-stuck', policy, actions, recs, snap)[1]
    return bad


def join_stuck(key, policy, actions, recs, snap):
    """Progress clause (property: "members that are slow ... are waited for", i.e. join waits
    *for members* and for nothing else): at the end of a trace in which no other task called
    next_done() and had to wait there (Lean: `NoParking`) and the joining task was not cancelled
    while it was already awaiting the members it had cancelled (F11), if every task ever placed in the group
    has finished then the join()/__aexit__ task has finished too.  Returns (applies, violations)."""
    if snap.get('join_state') is None or snap.get('joiner_done') is None:
        return False, []
    # a next_done() caller competes with the joiner if it had to wait on the group's semaphore
    # (F12 needs such a caller); callers that were served at once do not
    for a, rec in zip(actions, recs):
        if any(o.startswith('nb') for o in rec['obs']):
            return False, []
        if a[0] == 'K' and rec.get('pre_sweep'):
            return False, []
    if not all(st == 'done' for st in snap['status'].values()):
        return False, []
    if snap['joiner_done']:
        return True, []
    return True, [(key, f'policy {policy}: every member has finished ({sorted(snap["status"])}) '
                        f'and nobody else consumes the group, but the join task is still '
                        f'waiting in {snap.get("waits_in")}')]


def _spawned_by(i, idx, actions, recs, strict=False):
    """member i existed at step idx: spawned directly at a step <= idx, or a child whose parent
    had received its cancellation by then (strict: before step idx)"""
    for j in range(idx + 1):
        a = actions[j]
        if a[0] == 'S' and a[1] == i and f'sr{i}' not in recs[j]['obs']:
            return True
        if any(m == i for m, _oc in TG.adds_of(a)):
            return True         # an already finished task put into the group by this call
    upto = idx if strict else idx + 1
    seen = {o for r in recs[:upto] for o in r['obs']}
    for a in actions[:idx + 1]:
        if a[0] == 'S' and any(c == i for c, _d in a[3]):
            if f'cr{a[1]}' in seen and f'sr{i}' not in seen:
                return True
    return False


def _work(args):
    repo, seed, n, steps = args
    r = random.Random(seed)
    out = []
    for k in range(n):
        pol = r.choice(['all', 'any', 'object', 'none'])
        out.append((pol,) + TG.run_trace(repo, pol, r, max_steps=steps,
                                         micro_rng=r if k % 4 == 0 else None,
                                         drain_rng=r if k % 2 == 1 else None,
                                         consumers=k % 4 != 3,
                                         min_spawns=r.randint(1, 3) if k % 2 == 1 else 0,
                                         extra=k % 3 == 0))
    return out


def gen_runs(ctx, n, steps=14):
    nproc = min(16, os.cpu_count() or 1) if n >= 2000 else 1
    per = max(1, n // (nproc * 2)) if nproc > 1 else n
    jobs = [(ctx.repo, ctx.rng.randrange(1 << 30), per, steps) for _ in range(max(1, n // per))]
    if nproc == 1:
        parts = [_work(j) for j in jobs]
    else:
        with Pool(nproc) as pool:
            parts = pool.map(_work, jobs)
    return [x for p in parts for x in p]


def parse_actions(text):
    acts = []
    for tok in text.split(';')[1:]:
        parts = [x.split() for x in tok.split('+')]
        # `S i 0 - + F i oc - + ... + <J|E|N>`: tasks that had already finished, added by the call
        adds = tuple((int(parts[n][1]), parts[n + 1][2]) for n in range(0, len(parts) - 1, 2))
        f = parts[-1]
        k = f[0]
        if adds:
            if k == 'J':
                acts.append(('J', adds))
            elif k == 'E':
                acts.append(('E', {'0': False, '1': True, 'c': 'c'}[f[1]], adds))
            elif k == 'N':
                acts.append(('N', int(f[1]), adds))
            continue
        if k == 'S':
            ch = tuple((int(c.split(':')[0]), c.split(':')[1] == '1')
                       for c in f[3].split(',')) if f[3] != '-' else ()
            acts.append(('S', int(f[1]), f[2] == '1', ch))
        elif k == 'F':
            acts.append(('F', int(f[1]), f[2]))
        elif k in ('X', 'Y'):
            acts.append((k, int(f[1])))
        elif k == 'J':
            acts.append(('J',))
        elif k == 'E':
            acts.append(('E', {'0': False, '1': True, 'c': 'c'}[f[1]]))
        elif k == 'K':
            acts.append(('K',))
        elif k == 'N':
            acts.append(('N', int(f[1])))
        elif k == 'R':
            acts.append(('R', len([x for x in acts if x[0] == 'R'])))
        elif k == 'A':
            acts.append(('A', int(f[1]), f[2] == '1'))
    return text.split(';')[0].strip(), acts


def evaluate(ctx, runs, res, oracle_fn, tag):
    lines = [TG.model_line(pol, acts, recs) for pol, acts, recs, _s in runs]
    model = ctx.model(lines)
    for i, (pol, acts, recs, snap) in enumerate(runs):
        case = {'policy': pol, 'trace': lines[i]}
        for key, why in oracle_fn(pol, acts, recs, snap):
            res.violation(key, case, why)
        if model is not None:
            if model[i] == 'bad-op':
                res.disagreement(case, 'n/a', 'bad-op')
            else:
                ms = [TG.parse_record(x) for x in model[i].split(' ; ')]
                for st, (m, rec) in enumerate(zip(ms, recs)):
                    if acts[st][0] == 'A':
                        # the model sees "an add of an id that exists": refused (`sr`)
                        m = (tuple(sorted('rr' + o[2:] if o.startswith('sr') else o for o in m[0])),) \
                            + tuple(m[1:])
                    if m != TG.rec_key(rec):
                        res.disagreement(case, str(TG.rec_key(rec)), str(m), step=st,
                                         action=str(acts[st]))
                        break
        allobs = [o for r in recs for o in r['obs']]
        res.count('join_exits', sum(o.startswith('jx') for o in allobs))
        res.count('group_cancel_deliveries', sum(o.startswith('cr') for o in allobs))
        res.count('spawn_refused', sum(o.startswith('sr') for o in allobs))
        res.count('next_done_blocked', sum(o.startswith('nb') for o in allobs))
        res.count('policy_' + pol)
        sj = snap.get('second_join')
        if sj:
            res.count('second_join_probes')
            res.count('second_join_finished_with_everyone_done' if sj['finished'] else
                      'second_join_still_waiting_for_members')
            if sj['first_done']:
                res.count('second_join_after_first_was_cut_short')
        res.count('joiner_cancelled', sum(a[0] == 'K' for a in acts))
        # progress clause: how often its hypotheses were met (and how the traces end)
        res.count('traces_drained_to_all_members_done' if snap.get('drained') else
                  'traces_not_drained')
        if snap['status'] and all(st == 'done' for st in snap['status'].values()):
            res.count('traces_ending_with_every_member_done')
            if snap.get('join_state') is not None:
                res.count('traces_ending_with_every_member_done_and_a_joiner')
        if join_stuck('x', pol, acts, recs, snap)[0]:
            res.count('join_stuck_clause_evaluated')
            if not snap['status']:
                res.count('join_stuck_clause_evaluated_trivially_no_member')
            else:
                res.count('join_stuck_clause_evaluated_with_members')
                res.count('join_stuck_clause_evaluated_policy_' + pol)
                j_at = next((n for n, a in enumerate(acts) if a[0] in ('J', 'E')), None)
                x_at = next((n for n, r_ in enumerate(recs)
                             if any(o.startswith('jx') for o in r_['obs'])), None)
                if j_at is not None and x_at is not None and x_at > j_at:
                    res.count('join_stuck_clause_evaluated_join_had_to_wait')
                if any(a[0] == 'K' for a in acts):
                    res.count('join_stuck_clause_evaluated_joiner_cancelled_in_loop')
                if any(o.startswith('cr') for r_ in recs for o in r_['obs']):
                    res.count('join_stuck_clause_evaluated_group_had_to_cancel')
                if any(a[0] == 'N' for a in acts):
                    res.count('join_stuck_clause_evaluated_noncompeting_consumer')
        res.count('drain_actions_Y', sum(a[0] == 'Y' for a in acts))
        if any(o.startswith('jx') for o in allobs) and any(o.startswith('cr') for o in allobs):
            res.nontrivial(lines[i])
        if i < 3:
            res.sample({'trace': lines[i],
                        'impl_last': str(TG.rec_key(recs[-1])) if recs else None})
    res['evaluations'] += len(runs)


def run(ctx, oracle_fn=oracle, pid=PID, rule=RULE):
    res = Results()
    corp = []
    for ln in corpus_lines(ctx.verif, pid):
        pol, acts = parse_actions(ln)
        corp.append((pol,) + TG.run_trace(ctx.repo, pol, acts))
    if corp:
        evaluate(ctx, corp, res, oracle_fn, 'corpus')
    res['scopes']['corpus'] = len(corp)
    n = (400000 if ctx.tier == 'thorough' else 60000) if ctx.deep else 8000
    runs = gen_runs(ctx, n)
    evaluate(ctx, runs, res, oracle_fn, 'generated')
    res['scopes']['generated_traces'] = len(runs)
    return res.finish(rule, exhaustive=False)


def replay(ctx, case, oracle_fn=oracle):
    if isinstance(case.get('case'), dict):
        case = case['case']
    res = Results()
    pol, acts = parse_actions(case['trace'])
    evaluate(ctx, [(pol,) + TG.run_trace(ctx.repo, pol, acts)], res, oracle_fn, 'replay')
    return res.finish('replay of one recorded trace')
