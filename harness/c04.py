"""C04 correspondence + search: the real codec classes (JSONRPCv1/v2/Loose/AutoDetect) against the
Lean model (`drv_c04`), and the property oracle (written from the property text) on every
implementation result.

Case kinds
  decode     (proto, payload)            bytes = json.dumps(payload) -> cls.message_to_item
  roundtrip  (proto, what, ...)          real *_message encoder -> bytes -> real decoder(s)
"""
import asyncio
import itertools
import json
import os
from multiprocessing import Pool

from harness import jwire
from harness.base import Results
from harness import codec_common as cc
from tools.facts.common import fresh_import

E = jwire.enc
S = jwire.str_tok
same = jwire.same

# ------------------------------------------------------------------------------ structural grid
# decision-relevant values first: the quick tier takes the first QUICK_N of each list
GRID = {
    'jsonrpc': ['2.0', '1.0', None, 2.0, '2', ['2.0'], {}, True],
    'method': ['m', None, 5, '', True, ['m'], {}],
    'params': [[], {}, None, 5, [1, 'a'], {'a': 1}, 'x', False],
    'id': [1, None, True, [1], 'x', 1.5, {'a': 1}, 0, ''],
    'result': [None, 0, 'r', [], {}, False, 1.5],
    'error': [None, {'code': 1, 'message': 'm'}, 'e', 7, {'code': True, 'message': 'm'},
              {'code': 1.0, 'message': 'm'}, {'code': 1, 'message': 5}, {}, [], False, 0, ''],
}
MEMBERS = list(GRID)
QUICK_N = 4
ABSENT = object()


def grid_payloads(n_per_member=None):
    choices = []
    for m in MEMBERS:
        vals = GRID[m] if n_per_member is None else GRID[m][:n_per_member]
        choices.append([ABSENT] + vals)
    for combo in itertools.product(*choices):
        yield {m: v for m, v in zip(MEMBERS, combo) if v is not ABSENT}


def grid_size(n_per_member=None):
    n = 1
    for m in MEMBERS:
        n *= 1 + (len(GRID[m]) if n_per_member is None else min(n_per_member, len(GRID[m])))
    return n


# ------------------------------------------------------------------------------ oracle
def _fmt_violation(res, key, case, why, impl):
    res.violation(key, case, why, impl=impl)


def check_wire_format(pname, obj, kind):
    """`obj` is the parsed JSON of an encoder output.  Returns None or a reason.
    2.0: "jsonrpc":"2.0" and (responses) exactly one of result/error;
    1.0: (responses) result and error both present with at least one null, params a list."""
    if not isinstance(obj, dict):
        return 'message is not a JSON object'
    if pname == 'v1':
        if kind in ('result', 'error'):
            if 'result' not in obj or 'error' not in obj:
                return '1.0 response lacks result or error'
            if obj['result'] is not None and obj['error'] is not None:
                return '1.0 response has neither result nor error null'
        else:
            if not isinstance(obj.get('params'), list):
                return '1.0 request params is not a list'
            if 'method' not in obj or 'id' not in obj:
                return '1.0 request lacks method or id'
    else:
        if obj.get('jsonrpc') != '2.0' or type(obj.get('jsonrpc')) is not str:
            return '2.0 message lacks "jsonrpc":"2.0"'
        if kind in ('result', 'error'):
            if ('result' in obj) == ('error' in obj):
                return '2.0 response does not have exactly one of result/error'
        else:
            if 'method' not in obj:
                return '2.0 request lacks method'
            if 'params' in obj and not isinstance(obj['params'], (list, dict)):
                return '2.0 request params is neither list nor dict'
    return None


def check_one_line_json(b):
    """Returns (parsed, None) or (None, reason)."""
    if not isinstance(b, bytes):
        return None, f'encoder returned {type(b).__name__}, not bytes'
    if b'\n' in b or b'\r' in b:
        return None, 'raw newline in message'
    try:
        return cc.strict_loads(b), None
    except Exception as e:
        return None, f'not valid JSON ({type(e).__name__})'


def oracle_decode(mod, pname, payload, outcome):
    """Property oracle for one decode.  `outcome` = ('ok', item, rid) | ('exc', e).
    Returns None or (key, why)."""
    if outcome[0] == 'exc':
        e = outcome[1]
        if not isinstance(e, mod.ProtocolError):
            return f'c04:decode-raises-{type(e).__name__}', \
                f'message_to_item raised {type(e).__name__}, not an item or ProtocolError'
        if e.code not in cc.DOCUMENTED_CODES:
            return 'c04:undocumented-code', f'ProtocolError code {e.code!r} is not a documented JSON-RPC code'
        if e.error_message is not None:
            obj, why = check_one_line_json(e.error_message)
            if why:
                return 'c04:error-reply-not-one-line-json', why
            why = check_wire_format(pname, obj, 'error')
            if why:
                return 'c04:error-reply-format', why
            pid = payload.get('id') if isinstance(payload, dict) else None
            if not (obj.get('id') is None or same(obj.get('id'), pid)):
                return 'c04:error-reply-id', 'error reply carries an id that is neither null nor the request id'
        return None
    _ok, item, rid = outcome
    if isinstance(item, list):
        if pname == 'v1':
            return 'c04:v1-accepts-batch', '1.0 decoder accepted a batch'
        if not (isinstance(payload, list) and payload and same(item, payload)):
            return 'c04:batch-members', 'batch members differ from the array received'
        return None
    if not isinstance(payload, dict):
        return 'c04:non-object-accepted', 'a non-object message was decoded to an item'
    is_req = isinstance(item, (mod.Request, mod.Notification))
    # ids: the item's id is the message's id; notification <=> no id / null id
    pid = payload.get('id')
    if is_req:
        if isinstance(item, mod.Notification):
            if pid is not None:
                return 'c04:notification-with-id', 'a message with a non-null id was decoded as a notification'
        elif pid is None or not same(rid, pid):
            return 'c04:request-id', 'request id differs from the id member'
        if not isinstance(item.method, str) or not same(item.method, payload.get('method')):
            return 'c04:method', 'decoded method is not the method member (a string)'
        want = payload.get('params', [] if pname != 'v1' else None)
        if not same(item.args, want):
            return 'c04:params', 'decoded args differ from the params member'
    else:
        if 'id' not in payload and pname != 'loose':
            return 'c04:response-without-id', 'a response without id was accepted'
        if not same(rid, pid):
            return 'c04:response-id', 'response id differs from the id member'
        r = item.result
        if isinstance(r, mod.RPCError):
            if payload.get('error') is None:
                return 'c04:error-from-nothing', 'an error response was decoded from a message without error'
        elif not same(r, payload.get('result')) or 'result' not in payload:
            return 'c04:result-value', 'decoded result differs from the result member'
    # strict decoders accept only messages in their own format
    if pname in ('v2', 'auto'):
        why = check_wire_format('v2', payload, 'request' if is_req else 'result')
        if why:
            return 'c04:v2-accepts-out-of-format', 'strict 2.0 decoder accepted: ' + why
        if is_req and not isinstance(payload.get('method'), str):
            return 'c04:v2-accepts-out-of-format', 'method is not a string'
    if pname == 'v1':
        why = check_wire_format('v1', payload, 'request' if is_req else 'result')
        if why:
            return 'c04:v1-accepts-out-of-format', 'strict 1.0 decoder accepted: ' + why
    return None


# ------------------------------------------------------------------------------ impl side
def decode_raw(mod, cls, message):
    try:
        item, rid = cls.message_to_item(message)
    except BaseException as e:   # noqa
        if isinstance(e, (KeyboardInterrupt, SystemExit)):
            raise
        return ('exc', e)
    return ('ok', item, rid)


def outcome_line(mod, outcome):
    if outcome[0] == 'exc':
        return cc.exc_line(mod, outcome[1])
    return cc.item_line(mod, outcome[1], outcome[2])


def detect_line(mod, message):
    try:
        return cc.proto_name(mod, mod.JSONRPCAutoDetect.detect_protocol(message))
    except BaseException as e:   # noqa
        if isinstance(e, (KeyboardInterrupt, SystemExit)):
            raise
        return cc.exc_line(mod, e)


_mod = None


def _init(repo):
    global _mod
    _mod = fresh_import(repo, 'aiorpcx.jsonrpc')


def _decode_chunk(cases):
    """cases: list of (pname, payload).  Returns per case (impl_line, detect_line|None,
    oracle verdict|None, l1_ok)."""
    mod = _mod
    P = cc.protos(mod)
    out = []
    for pname, payload in cases:
        b = cc.to_bytes(payload)
        l1_ok = same(json.loads(b), payload)
        o = decode_raw(mod, P[pname], b)
        line = outcome_line(mod, o)
        verdict = oracle_decode(mod, pname, payload, o)
        det = detect_line(mod, b) if pname == 'auto' else None
        out.append((line, det, verdict, l1_ok))
    return out


def run_decode_impl(ctx, cases):
    if len(cases) < 30000:
        _init(ctx.repo)
        return _decode_chunk(cases)
    nproc = min(12, os.cpu_count() or 1)
    size = max(5000, len(cases) // (nproc * 4))
    jobs = [cases[i:i + size] for i in range(0, len(cases), size)]
    with Pool(nproc, initializer=_init, initargs=(ctx.repo,)) as pool:
        parts = pool.map(_decode_chunk, jobs)
    return [r for p in parts for r in p]


def model_lines(ctx, lines):
    """run the driver, in parallel chunks when there is a lot to do"""
    if len(lines) < 60000 or not ctx.have_model:
        return ctx.model(lines)
    from concurrent.futures import ThreadPoolExecutor
    n = 8
    size = (len(lines) + n - 1) // n
    chunks = [lines[i:i + size] for i in range(0, len(lines), size)]
    with ThreadPoolExecutor(n) as ex:
        parts = list(ex.map(ctx.model, chunks))
    return [x for p in parts for x in p]


def evaluate_decode(ctx, res, cases, scope):
    """cases: list of (pname, payload)"""
    if not cases:
        return
    impl = run_decode_impl(ctx, cases)
    lines = []
    for pname, payload in cases:
        lines.append(f'dec {pname} {E(payload)}')
    det_idx = [i for i, (pname, _p) in enumerate(cases) if pname == 'auto']
    det_lines = [f'detect {E(cases[i][1])}' for i in det_idx]
    model = model_lines(ctx, lines + det_lines)
    for i, ((pname, payload), (line, det, verdict, l1_ok)) in enumerate(zip(cases, impl)):
        case = {'kind': 'decode', 'proto': pname, 'payload': E(payload), 'scope': scope}
        if not l1_ok:
            res.disagreement(case, 'json.loads(json.dumps(p)) != p', 'law L1', law='L1')
        if verdict:
            res.violation(verdict[0], case, verdict[1], impl=line)
        if model is not None and model[i] != line:
            res.disagreement(case, line, model[i])
        tag = line.split(' ', 1)[0]
        if tag == 'PE':
            tag = 'PE' + line.split(' ', 2)[1]
        res.count(f'decode_{pname}_{tag}')
        if tag not in ('PE-32600',):
            res.nontrivial(('d', pname, line))
    if model is not None:
        for j, i in enumerate(det_idx):
            m = model[len(lines) + j]
            got = impl[i][1]
            res.count('detect_' + got.split(' ')[0])
            if m != got:
                res.disagreement({'kind': 'detect', 'payload': E(cases[i][1]), 'scope': scope}, got, m)
    res['evaluations'] += len(cases)


# ------------------------------------------------------------------------------ round trips
class RT:
    """one encode->decode case"""
    __slots__ = ('pname', 'what', 'method', 'args', 'rid', 'value', 'code', 'message', 'members')

    def __init__(self, pname, what, **kw):
        self.pname, self.what = pname, what
        for k in ('method', 'args', 'rid', 'value', 'code', 'message', 'members'):
            setattr(self, k, kw.get(k))

    def case(self):
        d = {'kind': 'roundtrip', 'proto': self.pname, 'what': self.what}
        for k in ('method', 'args', 'rid', 'value', 'code', 'message'):
            v = getattr(self, k)
            if v is not None or k in ('rid', 'value'):
                d[k] = E(v)
        if self.members is not None:
            d['members'] = [[m[0]] + [E(x) for x in m[1:]] for m in self.members]
        return d

    @staticmethod
    def from_case(d):
        kw = {k: jwire.dec(d[k]) for k in ('method', 'args', 'rid', 'value', 'code', 'message')
              if k in d}
        if 'members' in d:
            kw['members'] = [tuple([m[0]] + [jwire.dec(x) for x in m[1:]]) for m in d['members']]
        return RT(d['proto'], d['what'], **kw)


def gen_id(rng, pname, allow_null=False):
    r = rng.random()
    if allow_null and r < 0.15:
        return None
    if r < 0.5:
        return rng.randint(0, 50)
    if r < 0.6:
        return cc.gen_int(rng)
    if r < 0.8:
        return cc.gen_str(rng)
    if r < 0.9:
        return rng.choice((1.0, 0.0, 2.5, -1.5, 1e300))
    if pname == 'v1':
        # "for the 1.0 class on its own any JSON value" (non-null for a request)
        v = cc.gen_value(rng, 2)
        return v if v is not None else [None]
    return rng.randint(0, 10 ** 9)


def gen_args(rng, pname):
    r = rng.random()
    if r < 0.12:
        return []
    if r < 0.2:
        return ()
    if r < 0.3:
        return {}
    if r < 0.65:
        v = [cc.gen_value(rng, 3) for _ in range(rng.randint(1, 4))]
        return tuple(v) if rng.random() < 0.3 else v
    if r < 0.7:
        return [cc.nest(rng, rng.choice((10, 50, 200)))]
    out = {}
    for _ in range(rng.randint(1, 4)):
        out[cc.gen_str(rng)] = cc.gen_value(rng, 3)
    return out


def gen_rt(rng):
    pname = rng.choice(('v1', 'v2', 'loose', 'auto'))
    r = rng.random()
    if r < 0.25:
        return RT(pname, 'request', method=cc.gen_str(rng), args=gen_args(rng, pname),
                  rid=gen_id(rng, pname))
    if r < 0.4:
        return RT(pname, 'notification', method=cc.gen_str(rng), args=gen_args(rng, pname))
    if r < 0.6:
        v = cc.gen_value(rng, 4) if rng.random() < 0.9 else cc.nest(rng, rng.choice((20, 150)))
        return RT(pname, 'result', value=v, rid=gen_id(rng, pname, allow_null=True))
    if r < 0.8:
        return RT(pname, 'error', code=cc.gen_int(rng), message=cc.gen_str(rng),
                  rid=gen_id(rng, pname, allow_null=True))
    members = []
    for _ in range(rng.randint(1, 5)):
        if rng.random() < 0.65:
            members.append(('R', cc.gen_str(rng), gen_args(rng, pname), gen_id(rng, 'v2')))
        else:
            members.append(('N', cc.gen_str(rng), gen_args(rng, pname)))
    return RT(pname, 'batch', members=members)


def norm(v):
    """tuples and lists are the same JSON array"""
    if type(v) in (list, tuple):
        return [norm(x) for x in v]
    if type(v) is dict:
        return {k: norm(x) for k, x in v.items()}
    return v


def loose_admits(rid):
    """ids of the property's quantifier for 2.0/Loose: numbers, strings, null (a JSON boolean is
    not a number)"""
    return rid is None or (isinstance(rid, (int, float, str)) and not isinstance(rid, bool))


def eval_roundtrip(mod, rt, loop):
    """Runs the real encoder/decoders for one case.  Returns dict with
    'violations' [(key, why)], 'model' [(driver line, expected output, label)], 'tags' [...]"""
    P = cc.protos(mod)
    cls = P[rt.pname]
    viol, mlines, tags = [], [], [rt.what]
    pn = rt.pname

    def bad(key, why):
        viol.append((key, why))

    def encode(f):
        try:
            return ('ok', f())
        except BaseException as e:   # noqa
            if isinstance(e, (KeyboardInterrupt, SystemExit)):
                raise
            return ('exc', e)

    if rt.what in ('request', 'notification'):
        args = rt.args
        rid = rt.rid if rt.what == 'request' else None
        if rt.what == 'request':
            enc = encode(lambda: cls.request_message(mod.Request(rt.method, args), rid))
        else:
            enc = encode(lambda: cls.notification_message(mod.Notification(rt.method, args)))
        mline = f'req {pn} {S(rt.method)} {E(args)} {E(rid)}'
        named_v1 = pn == 'v1' and isinstance(args, dict)
        if enc[0] == 'exc':
            e = enc[1]
            mlines.append((mline, cc.exc_line(mod, e), 'encode'))
            if named_v1 and isinstance(e, mod.ProtocolError):
                tags.append('v1-named-rejected')
            else:
                bad(f'c04:encode-raises-{type(e).__name__}',
                    f'{rt.what}_message raised {type(e).__name__}')
            return {'violations': viol, 'model': mlines, 'tags': tags}
        b = enc[1]
        if named_v1:
            bad('c04:v1-named-args-emitted', '1.0 encoder emitted a request with named arguments')
        obj, why = check_one_line_json(b)
        if why:
            bad('c04:not-one-line-json', why)
            return {'violations': viol, 'model': mlines, 'tags': tags}
        why = check_wire_format(pn, obj, 'request')
        if why:
            bad('c04:wire-format', why)
        mlines.append((mline, 'ok ' + E(cc.canon_msg(obj) if isinstance(obj, dict) else [cc.canon_msg(x) for x in obj]), 'encode'))
        if not cc.has_float(obj):
            mlines.append((f'dumps {E(obj)}', 'D' + b.decode(), 'dumps'))
        o = decode_raw(mod, cls, b)
        line = outcome_line(mod, o)
        mlines.append((f'dec {pn} {E(obj)}', line, 'decode'))
        # equal item, same id
        ok = o[0] == 'ok' and isinstance(o[1], mod.Request if rt.what == 'request' else mod.Notification) \
            and type(o[1]) is (mod.Request if rt.what == 'request' else mod.Notification) \
            and same(o[1].method, rt.method) and same(norm(o[1].args), norm(args)) \
            and same(o[2], rid)
        if not ok:
            bad(f'c04:roundtrip-{rt.what}', f'decoding the encoded {rt.what} gave {line[:80]}')
        if isinstance(args, dict) and not args and 'params' in obj and obj['params'] != {}:
            bad('c04:empty-dict-params', 'empty dict params not preserved')
        if not args:
            tags.append('empty-params-' + type(args).__name__)
        _cross(mod, rt, b, obj, line, viol, mlines, tags, rid)
    elif rt.what in ('result', 'error'):
        rid = rt.rid
        if rt.what == 'result':
            enc = encode(lambda: cls.response_message(rt.value, rid))
            mline = f'res {pn} {E(rt.value)} {E(rid)}'
        else:
            enc = encode(lambda: cls.response_message(mod.RPCError(rt.code, rt.message), rid))
            mline = f'err {pn} {E(rt.code)} {E(rt.message)} {E(rid)}'
        if enc[0] == 'exc':
            bad(f'c04:encode-raises-{type(enc[1]).__name__}', f'response_message raised {type(enc[1]).__name__}')
            return {'violations': viol, 'model': mlines, 'tags': tags}
        b = enc[1]
        obj, why = check_one_line_json(b)
        if why:
            bad('c04:not-one-line-json', why)
            return {'violations': viol, 'model': mlines, 'tags': tags}
        why = check_wire_format(pn, obj, rt.what)
        if why:
            bad('c04:wire-format', why)
        mlines.append((mline, 'ok ' + E(cc.canon_msg(obj) if isinstance(obj, dict) else [cc.canon_msg(x) for x in obj]), 'encode'))
        if not cc.has_float(obj):
            mlines.append((f'dumps {E(obj)}', 'D' + b.decode(), 'dumps'))
        o = decode_raw(mod, cls, b)
        line = outcome_line(mod, o)
        mlines.append((f'dec {pn} {E(obj)}', line, 'decode'))
        if rt.what == 'result':
            ok = o[0] == 'ok' and isinstance(o[1], mod.Response) \
                and not isinstance(o[1].result, Exception) \
                and same(norm(o[1].result), norm(rt.value)) and same(o[2], rid)
            if rt.value is None:
                tags.append('result-null')
        else:
            ok = o[0] == 'ok' and isinstance(o[1], mod.Response) \
                and isinstance(o[1].result, mod.RPCError) \
                and same(o[1].result.code, rt.code) and same(o[1].result.message, rt.message) \
                and same(o[2], rid)
        if not ok:
            bad(f'c04:roundtrip-{rt.what}', f'decoding the encoded {rt.what} gave {line[:80]}')
        _cross(mod, rt, b, obj, line, viol, mlines, tags, rid)
    else:   # batch
        items, ids = [], []
        for m in rt.members:
            if m[0] == 'R':
                items.append(mod.Request(m[1], m[2]))
                ids.append(m[3])
            else:
                items.append(mod.Notification(m[1], m[2]))
        enc = encode(lambda: cls.batch_message(mod.Batch(items), ids))
        mem = ' '.join(f'R {S(m[1])} {E(m[2])} {E(m[3])}' if m[0] == 'R' else f'N {S(m[1])} {E(m[2])}'
                       for m in rt.members)
        mline = f'batch {pn} {len(rt.members)} {mem}'
        if enc[0] == 'exc':
            e = enc[1]
            mlines.append((mline, cc.exc_line(mod, e), 'encode'))
            if pn == 'v1' and isinstance(e, mod.ProtocolError):
                tags.append('v1-batch-rejected')
            else:
                bad(f'c04:encode-raises-{type(e).__name__}', f'batch_message raised {type(e).__name__}')
            return {'violations': viol, 'model': mlines, 'tags': tags}
        b = enc[1]
        if pn == 'v1':
            bad('c04:v1-batch-emitted', '1.0 encoder emitted a batch')
        obj, why = check_one_line_json(b)
        if why:
            bad('c04:not-one-line-json', why)
            return {'violations': viol, 'model': mlines, 'tags': tags}
        if not isinstance(obj, list) or len(obj) != len(rt.members):
            bad('c04:batch-shape', 'batch message is not an array with one entry per member')
            return {'violations': viol, 'model': mlines, 'tags': tags}
        for x in obj:
            why = check_wire_format(pn, x, 'request')
            if why:
                bad('c04:wire-format', why)
        mlines.append((mline, 'ok ' + E(cc.canon_msg(obj) if isinstance(obj, dict) else [cc.canon_msg(x) for x in obj]), 'encode'))
        # the batch joins the member messages with ', '
        try:
            parts = [cls.request_message(it, m[3]) if m[0] == 'R' else cls.notification_message(it)
                     for it, m in zip(items, rt.members)]
            tags.append('batch-join-comma-space' if b == b'[' + b', '.join(parts) + b']' else 'batch-join-other')
        except Exception:
            pass
        o = decode_raw(mod, cls, b)
        line = outcome_line(mod, o)
        mlines.append((f'dec {pn} {E(obj)}', line, 'decode'))
        # decoding through a connection gives the same members with the same ids
        asyncio.set_event_loop(loop)
        try:
            conn = mod.JSONRPCConnection(cls)
            got = conn.receive_message(b)
        except BaseException as e:   # noqa
            if isinstance(e, (KeyboardInterrupt, SystemExit)):
                raise
            bad('c04:roundtrip-batch', f'receiving the encoded batch raised {type(e).__name__}')
            return {'violations': viol, 'model': mlines, 'tags': tags}
        ok = len(got) == len(items)
        reqs = []
        if ok:
            for g, it, m in zip(got, items, rt.members):
                if type(g) is not type(it) or not same(g.method, it.method) \
                        or not same(norm(g.args), norm(it.args)):
                    ok = False
                if isinstance(g, mod.Request):
                    reqs.append((g, m[3]))
        if ok and reqs:
            # ids: answer request k with result k and read the ids back from the batch response
            last = None
            for k, (g, _rid) in enumerate(reqs):
                last = g.send_result(k)
            try:
                resp = json.loads(last.decode())
                got_ids = {r['result']: r['id'] for r in resp}
                for k, (_g, rid) in enumerate(reqs):
                    if not same(got_ids.get(k, ABSENT), rid):
                        ok = False
            except Exception:
                ok = False
        if not ok:
            bad('c04:roundtrip-batch', 'decoding the encoded batch did not give the same members/ids')
        # detection on a batch
        if pn in ('v2', 'loose', 'auto'):
            det = detect_line(mod, b)
            mlines.append((f'detect {E(obj)}', det, 'detect'))
            if det != 'v2':
                bad('c04:autodetect', f'auto-detection chose {det} for a 2.0 batch')
    return {'violations': viol, 'model': mlines, 'tags': tags}


def _cross(mod, rt, b, obj, line, viol, mlines, tags, rid):
    """Loose agreement and auto-detection for a strict-encoder output `b` whose own decoder
    gave `line`."""
    P = cc.protos(mod)
    pn = rt.pname
    if pn in ('v1', 'v2'):
        if pn == 'v2' or loose_admits(rid):
            lo = decode_raw(mod, P['loose'], b)
            lline = outcome_line(mod, lo)
            mlines.append((f'dec loose {E(obj)}', lline, 'decode-loose'))
            if lline != line:
                viol.append(('c04:loose-disagrees-' + pn,
                             f'loose decoder gives {lline[:60]} where {pn} gives {line[:60]}'))
        else:
            tags.append('v1-id-outside-loose')
    # auto-detection settles on a protocol that decodes the message as its origin would
    if pn == 'v2' or (pn == 'v1' and loose_admits(rid)) or pn in ('loose', 'auto'):
        det = detect_line(mod, b)
        mlines.append((f'detect {E(obj)}', det, 'detect'))
        tags.append('detect-' + det.split(' ')[0])
        if det in P:
            dl = outcome_line(mod, decode_raw(mod, P[det], b))
            if dl != line:
                viol.append(('c04:autodetect',
                             f'detected {det} decodes the first message as {dl[:60]}, origin {pn} as {line[:60]}'))
        else:
            viol.append(('c04:autodetect', f'detect_protocol failed on an encoder output: {det[:60]}'))


def evaluate_roundtrips(ctx, res, rts, scope):
    if not rts:
        return
    _init(ctx.repo)
    mod = _mod
    loop = asyncio.new_event_loop()
    try:
        outs = [eval_roundtrip(mod, rt, loop) for rt in rts]
    finally:
        asyncio.set_event_loop(None)
        loop.close()
    lines, owner = [], []
    for i, o in enumerate(outs):
        for (ml, exp, label) in o['model']:
            lines.append(ml)
            owner.append((i, exp, label))
    model = model_lines(ctx, lines)
    for i, (rt, o) in enumerate(zip(rts, outs)):
        case = None
        for key, why in o['violations']:
            case = case or dict(rt.case(), scope=scope)
            res.violation(key, case, why)
        for t in o['tags']:
            res.count(f'rt_{rt.pname}_{t}' if t in ('request', 'notification', 'result', 'error', 'batch')
                      else f'rt_{t}')
        res.nontrivial(('rt', rt.pname, rt.what, E(rt.case().get('args', rt.case().get('value', '')))[:200]))
    if model is not None:
        for (i, exp, label), got in zip(owner, model):
            res.count('model_' + label)
            if got != exp:
                res.disagreement(dict(rts[i].case(), scope=scope, step=label), exp, got)
    res['evaluations'] += len(rts)


# ------------------------------------------------------------------------------ laws L1 / L1b
def check_laws(ctx, res, rng, n):
    """L1: loads(dumps(v)) = v for JSON-representable v; L1b: '[' + ', '.join(parts) + ']' loads
    to the list of the parts; floats render over a newline-free alphabet; wire self-test."""
    vals = [cc.gen_value(rng, 4) for _ in range(n)] + [cc.nest(rng, d) for d in (1, 10, 100, 400)]
    alphabet = set('0123456789.e+-')
    echo = []
    for v in vals:
        b = cc.to_bytes(v)
        if not same(json.loads(b), v):
            res.disagreement({'kind': 'law', 'value': E(v)}, 'loads(dumps(v)) != v', 'L1', law='L1')
        if b'\n' in b:
            res.violation('c04:dumps-newline', {'kind': 'law', 'value': E(v)}, 'json.dumps output has a newline')
        for x in cc.floats_in(v, []):
            if not set(json.dumps(x)) <= alphabet:
                res.disagreement({'kind': 'law', 'value': E(x)}, json.dumps(x), 'float alphabet', law='L2')
        echo.append('echo ' + E(v))
    for i in range(0, len(vals) - 3, 3):
        parts = [cc.to_bytes(v) for v in vals[i:i + 3]]
        if not same(json.loads(b'[' + b', '.join(parts) + b']'), vals[i:i + 3]):
            res.disagreement({'kind': 'law', 'value': E(vals[i:i + 3])}, 'batch join', 'L1b', law='L1b')
    out = ctx.model(echo)
    if out is not None:
        for ln, got in zip(echo, out):
            if got != ln[5:]:
                res.disagreement({'kind': 'wire', 'value': ln[5:]}, ln[5:], got)
    res.count('law_values', len(vals))


# ------------------------------------------------------------------------------ corpus
def load_corpus(verif):
    path = os.path.join(verif, 'corpus', 'C04.txt')
    dec, rts = [], []
    if os.path.exists(path):
        for line in open(path):
            line = line.strip()
            if not line or line.startswith('#'):
                continue
            d = json.loads(line)
            if d['kind'] == 'decode':
                payload = jwire.dec(d['payload']) if 'payload' in d else json.loads(d['json'])
                dec.append((d['proto'], payload))
            else:
                rts.append(RT.from_case(d))
    return dec, rts


RULE = ('decode case = (protocol class, payload); exhaustive over every subset of the members '
        '{jsonrpc, method, params, id, result, error} x the listed value kinds per member '
        '(quick: first 4 kinds of each member, thorough: all 7-12), under each of v1, v2, Loose '
        'and AutoDetect (+ detect_protocol); plus seeded random payloads (extra members, permuted '
        'order, batches, non-objects) and seeded encode->decode round trips of requests, '
        'notifications, results, errors and batches (any-Unicode methods incl. lone surrogates and '
        'control characters, nesting to depth 200, ints to 4000 digits, all finite float classes, '
        '[] / () / {} params) with Loose and auto-detection cross-decoding; non-trivial = distinct '
        '(protocol, outcome line) for decodes other than plain INVALID_REQUEST, distinct '
        '(protocol, kind, value) for round trips')


def random_payload(rng):
    r = rng.random()
    if r < 0.7:
        p = {}
        for m in MEMBERS:
            if rng.random() < 0.5:
                p[m] = rng.choice(GRID[m]) if rng.random() < 0.7 else cc.gen_value(rng, 2)
        if rng.random() < 0.2:
            p[cc.gen_str(rng)] = cc.gen_value(rng, 1)
        items = list(p.items())
        rng.shuffle(items)
        return dict(items)
    if r < 0.85:
        return [random_payload(rng) if rng.random() < 0.8 else cc.gen_value(rng, 1)
                for _ in range(rng.randint(0, 3))]
    return cc.gen_value(rng, 2)


def depth_of(ctx):
    """quick / drift (quick tier after a fingerprint drift or a broken obligation: must stay
    within ~90 s) / thorough"""
    if ctx.tier == 'thorough':
        return 'thorough'
    return 'drift' if ctx.deep else 'quick'


SCALE = {
    #            laws  grid values/member  random payloads  round trips  histories
    'quick':    (400,  QUICK_N,            4000,            3000,        600),
    'drift':    (1000, 5,                  12000,           8000,        2000),
    'thorough': (3000, None,               60000,           40000,       12000),
}


def run(ctx):
    res = Results()
    rng = ctx.rng
    nlaws, npm, nrand, nrt, nhist = SCALE[depth_of(ctx)]
    # (a) corpus first
    cdec, crts = load_corpus(ctx.verif)
    evaluate_decode(ctx, res, cdec, 'corpus')
    evaluate_roundtrips(ctx, res, crts, 'corpus')
    res['scopes']['corpus'] = len(cdec) + len(crts)
    # (b) laws + wire self-test
    check_laws(ctx, res, rng, nlaws)
    # (c) exhaustive structural variants
    cases = [(pn, p) for p in grid_payloads(npm) for pn in cc.PROTO_NAMES]
    evaluate_decode(ctx, res, cases, 'grid')
    res['scopes']['grid'] = {'values_per_member': {m: (len(GRID[m]) if npm is None else min(npm, len(GRID[m])))
                                                   for m in MEMBERS},
                             'payloads': grid_size(npm), 'protocols': list(cc.PROTO_NAMES)}
    # (d) random payloads
    cases = [(rng.choice(cc.PROTO_NAMES), random_payload(rng)) for _ in range(nrand)]
    evaluate_decode(ctx, res, cases, 'random-payload')
    res['scopes']['random_payloads'] = nrand
    # (e) round trips
    rts = [gen_rt(rng) for _ in range(nrt)]
    evaluate_roundtrips(ctx, res, rts, 'roundtrip')
    res['scopes']['roundtrips'] = nrt
    for rt in rts[:3]:
        res.sample(rt.case())
    res['scopes']['depth'] = depth_of(ctx)
    return res.finish(RULE, exhaustive=True)


def replay(ctx, case):
    if 'case' in case and isinstance(case['case'], dict):
        case = case['case']
    res = Results()
    if case.get('kind') == 'decode':
        evaluate_decode(ctx, res, [(case['proto'], jwire.dec(case['payload']))], 'replay')
    elif case.get('kind') == 'roundtrip':
        evaluate_roundtrips(ctx, res, [RT.from_case(case)], 'replay')
    res.sample(case)
    return res.finish('replay of one recorded case')
