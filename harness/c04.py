"""C04 correspondence + search: the real codec classes (JSONRPCv1/v2/Loose/AutoDetect) against the
Lean model (`drv_c04`), and the property oracle (written from the property text) on every
implementation result.

Case kinds
  decode     (proto, payload)            bytes = json.dumps(payload) -> cls.message_to_item
  roundtrip  (proto, what, ...)          real *_message encoder -> bytes -> real decoder(s)
"""
import asyncio
import itertools
import json
import os
from multiprocessing import Pool

from harness import jwire
from harness.base import Results
from harness import codec_common as cc
from tools.facts.common import fresh_import

E = jwire.enc
S = jwire.str_tok
same = jwire.same

# ------------------------------------------------------------------------------ structural grid
# decision-relevant values first: the quick tier takes the first QUICK_N of each list
GRID = {
    'jsonrpc': ['2.0', '1.0', None, 2.0, '2', ['2.0'], {}, True],
    'method': ['m', None, 5, '', True, ['m'], {}],
    'params': [[], {}, None, 5, [1, 'a'], {'a': 1}, 'x', False],
    'id': [1, None, True, [1], 'x', 1.5, {'a': 1}, 0, ''],
    'result': [None, 0, 'r', [], {}, False, 1.5],
    'error': [None, {'code': 1, 'message': 'm'}, 'e', 7, {'code': True, 'message': 'm'},
              {'code': 1.0, 'message': 'm'}, {'code': 1, 'message': 5}, {}, [], False, 0, ''],
}
MEMBERS = list(GRID)
QUICK_N = 4
ABSENT = object()


def grid_payloads(n_per_member=None):
    choices = []
    for m in MEMBERS:
        vals = GRID[m] if n_per_member is None else GRID[m][:n_per_member]
        choices.append([ABSENT] + vals)
    for combo in itertools.product(*choices):
        yield {m: v for m, v in zip(MEMBERS, combo) if v is not ABSENT}


def grid_size(n_per_member=None):
    n = 1
    for m in MEMBERS:
        n *= 1 + (len(GRID[m]) if n_per_member is None else min(n_per_member, len(GRID[m])))
    return n


# ------------------------------------------------------------------------------ oracle
def _fmt_violation(res, key, case, why, impl):
    res.violation(key, case, why, impl=impl)


def check_wire_format(pname, obj, kind):
    """`obj` is the parsed JSON of an encoder output.  Returns None or a reason.
    2.0: "jsonrpc":"2.0" and (responses) exactly one of result/error;
    1.0: (responses) result and error both present with at least one null, params a list."""
    if not isinstance(obj, dict):
        return 'message is not a JSON object'
    if pname == 'v1':
        if kind in ('result', 'error'):
            if 'result' not in obj or 'error' not in obj:
                return '1.0 response lacks result or error'
            if obj['result'] is not None and obj['error'] is not None:
                return '1.0 response has neither result nor error null'
        else:
            if not isinstance(obj.get('params'), list):
                return '1.0 request params is not a list'
            if 'method' not in obj or 'id' not in obj:
                return '1.0 request lacks method or id'
    else:
        if obj.get('jsonrpc') != '2.0' or type(obj.get('jsonrpc')) is not str:
            return '2.0 message lacks "jsonrpc":"2.0"'
        if kind in ('result', 'error'):
            if ('result' in obj) == ('error' in obj):
                return '2.0 response does not have exactly one of result/error'
        else:
            if 'method' not in obj:
                return '2.0 request lacks method'
            if 'params' in obj and not isinstance(obj['params'], (list, dict)):
                return '2.0 request params is neither list nor dict'
    return None


def check_one_line_json(b):
    """Returns (parsed, None) or (None, reason)."""
    if not isinstance(b, bytes):
        return None, f'encoder returned {type(b).__name__}, not bytes'
    if b'\n' in b or b'\r' in b:
        return None, 'raw newline in message'
    try:
        return cc.strict_loads(b), None
    except Exception as e:
        return None, f'not valid JSON ({type(e).__name__})'


def id_admitted(pname, v):
    """ids the decoder of this class accepts in a well-formed message of its own format"""
    if pname == 'v1':
        return True
    return v is None or (isinstance(v, (int, float, str)) and not isinstance(v, bool))


def oracle_decode(mod, pname, payload, outcome):
    """Property oracle for one decode.  `outcome` = ('ok', item, rid) | ('exc', e).
    Returns None or (key, why).

    Clauses (from the property text): only an item or a ProtocolError comes out; an error reply
    is one newline-free line of valid JSON in the version's format; a decoded item is *equal* to
    what the message says (method, params, result, error code/message) and has the *same id* -
    also the id reported for a rejected response; the strict decoders accept only messages in
    their own format; 1.0 has no batches.  Which ProtocolError *code* a refusal carries and the
    best-effort reading of ill-formed 1.0/Loose error objects are not in the text: they are
    compared with the model only."""
    if outcome[0] == 'exc':
        e = outcome[1]
        if not isinstance(e, mod.ProtocolError):
            return f'c04:decode-raises-{type(e).__name__}', \
                f'message_to_item raised {type(e).__name__}, not an item or ProtocolError'
        if e.error_message is not None:
            obj, why = check_one_line_json(e.error_message)
            if why:
                return 'c04:error-reply-not-one-line-json', why
            why = check_wire_format(pname, obj, 'error')
            if why:
                return 'c04:error-reply-format', why
            pid = payload.get('id') if isinstance(payload, dict) else None
            if not (obj.get('id') is None or same(obj.get('id'), pid)):
                return 'c04:error-reply-id', 'error reply carries an id that is neither null nor the request id'
        if e.response_msg_id is not id:
            # the message was taken for a response: the id it is reported under is the id it
            # carries (loss-free), when that id is one this class accepts in a response
            if isinstance(payload, dict) and 'id' in payload and id_admitted(pname, payload['id']):
                if not same(e.response_msg_id, payload['id']):
                    return 'c04:response-error-id', \
                        'a rejected response is reported under an id other than the one it carries'
            elif e.response_msg_id is not None and not (
                    isinstance(payload, dict) and same(e.response_msg_id, payload.get('id'))):
                return 'c04:response-error-id', 'a rejected response is reported under an id it does not carry'
        return None
    _ok, item, rid = outcome
    if isinstance(item, list):
        if pname == 'v1':
            return 'c04:v1-accepts-batch', '1.0 decoder accepted a batch'
        if not (isinstance(payload, list) and payload and same(item, payload)):
            return 'c04:batch-members', 'batch members differ from the array received'
        return None
    if not isinstance(payload, dict):
        return 'c04:non-object-accepted', 'a non-object message was decoded to an item'
    is_req = isinstance(item, (mod.Request, mod.Notification))
    # same id: a request carries the id member; a notification is a message without an id (absent,
    # or null - the library's reading of "id": null, theorem null_id_is_notification)
    pid = payload.get('id')
    if is_req:
        if isinstance(item, mod.Notification):
            if pid is not None:
                return 'c04:notification-with-id', 'a message with a non-null id was decoded as a notification'
        elif 'id' not in payload or not same(rid, pid):
            return 'c04:request-id', 'request id differs from the id member'
        if not isinstance(item.method, str) or not same(item.method, payload.get('method')):
            return 'c04:method', 'decoded method is not the method member (a string)'
        want = payload.get('params', [] if pname != 'v1' else None)
        if not same(item.args, want):
            return 'c04:params', 'decoded args differ from the params member'
    else:
        if 'id' not in payload and pname != 'loose':
            return 'c04:response-without-id', 'a response without id was accepted'
        if not same(rid, pid):
            return 'c04:response-id', 'response id differs from the id member'
        r = item.result
        if isinstance(r, mod.RPCError):
            err = payload.get('error')
            if err is None:
                return 'c04:error-from-nothing', 'an error response was decoded from a message without error'
            if isinstance(err, dict) and type(err.get('code')) is int and type(err.get('message')) is str:
                # a well-formed error object: code and message are the ones sent
                if not (same(r.code, err['code']) and same(r.message, err['message'])):
                    return 'c04:error-value', 'decoded error code/message differ from the error member'
        elif not same(r, payload.get('result')) or 'result' not in payload:
            return 'c04:result-value', 'decoded result differs from the result member'
    # strict decoders accept only messages in their own format
    if pname in ('v2', 'auto'):
        why = check_wire_format('v2', payload, 'request' if is_req else 'result')
        if why:
            return 'c04:v2-accepts-out-of-format', 'strict 2.0 decoder accepted: ' + why
        if is_req and not isinstance(payload.get('method'), str):
            return 'c04:v2-accepts-out-of-format', 'method is not a string'
    if pname == 'v1':
        why = check_wire_format('v1', payload, 'request' if is_req else 'result')
        if why:
            return 'c04:v1-accepts-out-of-format', 'strict 1.0 decoder accepted: ' + why
    return None


# ------------------------------------------------------------------------------ impl side
def decode_raw(mod, cls, message):
    try:
        item, rid = cls.message_to_item(message)
    except BaseException as e:   # noqa
        if isinstance(e, (KeyboardInterrupt, SystemExit)):
            raise
        return ('exc', e)
    return ('ok', item, rid)


def outcome_line(mod, outcome):
    if outcome[0] == 'exc':
        return cc.exc_line(mod, outcome[1])
    return cc.item_line(mod, outcome[1], outcome[2])


def detect_line(mod, message):
    try:
        return cc.proto_name(mod, mod.JSONRPCAutoDetect.detect_protocol(message))
    except BaseException as e:   # noqa
        if isinstance(e, (KeyboardInterrupt, SystemExit)):
            raise
        return cc.exc_line(mod, e)


_mod = None


def _init(repo):
    global _mod
    _mod = fresh_import(repo, 'aiorpcx.jsonrpc')


def _decode_chunk(cases):
    """cases: list of (pname, payload).  Returns per case (impl_line, detect_line|None,
    oracle verdict|None, l1_ok)."""
    mod = _mod
    P = cc.protos(mod)
    out = []
    for pname, payload in cases:
        b = cc.to_bytes(payload)
        l1_ok = same(json.loads(b), payload)
        o = decode_raw(mod, P[pname], b)
        line = outcome_line(mod, o)
        verdict = oracle_decode(mod, pname, payload, o)
        det = detect_line(mod, b) if pname == 'auto' else None
        out.append((line, det, verdict, l1_ok))
    return out


def run_decode_impl(ctx, cases):
    if len(cases) < 30000:
        _init(ctx.repo)
        return _decode_chunk(cases)
    nproc = min(12, os.cpu_count() or 1)
    size = max(5000, len(cases) // (nproc * 4))
    jobs = [cases[i:i + size] for i in range(0, len(cases), size)]
    with Pool(nproc, initializer=_init, initargs=(ctx.repo,)) as pool:
        parts = pool.map(_decode_chunk, jobs)
    return [r for p in parts for r in p]


def model_lines(ctx, lines):
    """run the driver, in parallel chunks when there is a lot to do"""
    if len(lines) < 4000 or not ctx.have_model:
        return ctx.model(lines)
    from concurrent.futures import ThreadPoolExecutor
    n = 8 if len(lines) >= 60000 else 4
    size = (len(lines) + n - 1) // n
    chunks = [lines[i:i + size] for i in range(0, len(lines), size)]
    with ThreadPoolExecutor(n) as ex:
        parts = list(ex.map(ctx.model, chunks))
    return [x for p in parts for x in p]


def evaluate_decode(ctx, res, cases, scope):
    """cases: list of (pname, payload)"""
    if not cases:
        return
    impl = run_decode_impl(ctx, cases)
    lines = []
    for pname, payload in cases:
        lines.append(f'dec {pname} {E(payload)}')
    det_idx = [i for i, (pname, _p) in enumerate(cases) if pname == 'auto']
    det_lines = [f'detect {E(cases[i][1])}' for i in det_idx]
    model = model_lines(ctx, lines + det_lines)
    for i, ((pname, payload), (line, det, verdict, l1_ok)) in enumerate(zip(cases, impl)):
        case = {'kind': 'decode', 'proto': pname, 'payload': E(payload), 'scope': scope}
        if not l1_ok:
            res.disagreement(case, 'json.loads(json.dumps(p)) != p', 'law L1', law='L1')
        if verdict:
            res.violation(verdict[0], case, verdict[1], impl=line)
        if model is not None and model[i] != line:
            res.disagreement(case, line, model[i])
        tag = line.split(' ', 1)[0]
        if tag == 'PE':
            tag = 'PE' + line.split(' ', 2)[1]
        res.count(f'decode_{pname}_{tag}')
        if tag not in ('PE-32600',):
            res.nontrivial(('d', pname, line))
    if model is not None:
        for j, i in enumerate(det_idx):
            m = model[len(lines) + j]
            got = impl[i][1]
            res.count('detect_' + got.split(' ')[0])
            if m != got:
                res.disagreement({'kind': 'detect', 'payload': E(cases[i][1]), 'scope': scope}, got, m)
    res['evaluations'] += len(cases)


# ------------------------------------------------------------------------------ round trips
class RT:
    """one encode->decode case"""
    __slots__ = ('pname', 'what', 'method', 'args', 'rid', 'value', 'code', 'message', 'members')

    def __init__(self, pname, what, **kw):
        self.pname, self.what = pname, what
        for k in ('method', 'args', 'rid', 'value', 'code', 'message', 'members'):
            setattr(self, k, kw.get(k))

    def case(self):
        d = {'kind': 'roundtrip', 'proto': self.pname, 'what': self.what}
        for k in ('method', 'args', 'rid', 'value', 'code', 'message'):
            v = getattr(self, k)
            if v is not None or k in ('rid', 'value'):
                d[k] = E(v)
        if self.members is not None:
            d['members'] = [[m[0]] + [E(x) for x in m[1:]] for m in self.members]
        return d

    @staticmethod
    def from_case(d):
        kw = {k: jwire.dec(d[k]) for k in ('method', 'args', 'rid', 'value', 'code', 'message')
              if k in d}
        if 'members' in d:
            kw['members'] = [tuple([m[0]] + [jwire.dec(x) for x in m[1:]]) for m in d['members']]
        return RT(d['proto'], d['what'], **kw)


def gen_id(rng, pname, allow_null=False):
    r = rng.random()
    if allow_null and r < 0.15:
        return None
    if r < 0.5:
        return rng.randint(0, 50)
    if r < 0.6:
        return cc.gen_int(rng)
    if r < 0.8:
        return cc.gen_str(rng)
    if r < 0.9:
        return rng.choice((1.0, 0.0, 2.5, -1.5, 1e300))
    if pname == 'v1':
        # "for the 1.0 class on its own any JSON value" (non-null for a request)
        v = cc.gen_value(rng, 2)
        return v if v is not None else [None]
    return rng.randint(0, 10 ** 9)


# values that themselves look like JSON-RPC messages (a proxy / logger / test tool forwards messages
# as data): they are params, results, error data - never the message being decoded
FORWARDED = [
    {'jsonrpc': '2.0', 'method': 'm', 'params': [1], 'id': 1},
    {'jsonrpc': '2.0', 'method': 'n'},
    {'jsonrpc': '2.0', 'result': 7, 'id': 3},
    {'jsonrpc': '2.0', 'error': {'code': -32601, 'message': 'x'}, 'id': None},
    {'jsonrpc': '2.0'},
    {'method': 'm', 'params': [], 'id': 4},
    {'result': 1, 'error': None, 'id': 5},
    {'result': None, 'error': {'code': 1, 'message': 'e'}, 'id': 6},
    {'jsonrpc': '1.0', 'method': 'm', 'params': [], 'id': 7},
    [{'jsonrpc': '2.0', 'method': 'a', 'id': 1}, {'jsonrpc': '2.0', 'method': 'b'}],
]


def gen_forwarded(rng):
    """a forwarded message, bare or wrapped one or two levels deep"""
    v = rng.choice(FORWARDED)
    r = rng.random()
    if r < 0.4:
        return v
    if r < 0.6:
        return [v]
    if r < 0.8:
        return {'fwd': v, 'seq': rng.randint(0, 9)}
    return [0, {'inner': [v, rng.choice(FORWARDED)]}]


def gen_args(rng, pname):
    r = rng.random()
    if rng.random() < 0.12:
        a = [gen_forwarded(rng) for _ in range(rng.randint(1, 2))]
        return a if rng.random() < 0.7 else {'msg': a[0]}
    if r < 0.12:
        return []
    if r < 0.2:
        return ()
    if r < 0.3:
        return {}
    if r < 0.65:
        v = [cc.gen_value(rng, 3) for _ in range(rng.randint(1, 4))]
        return tuple(v) if rng.random() < 0.3 else v
    if r < 0.7:
        return [cc.nest(rng, rng.choice((10, 50, 200)))]
    out = {}
    for _ in range(rng.randint(1, 4)):
        out[cc.gen_str(rng)] = cc.gen_value(rng, 3)
    return out


def gen_rt(rng):
    pname = rng.choice(('v1', 'v2', 'loose', 'auto'))
    r = rng.random()
    if r < 0.25:
        return RT(pname, 'request', method=cc.gen_str(rng), args=gen_args(rng, pname),
                  rid=gen_id(rng, pname))
    if r < 0.4:
        return RT(pname, 'notification', method=cc.gen_str(rng), args=gen_args(rng, pname))
    if r < 0.6:
        v = cc.gen_value(rng, 4) if rng.random() < 0.9 else cc.nest(rng, rng.choice((20, 150)))
        if rng.random() < 0.12:
            v = gen_forwarded(rng)
        return RT(pname, 'result', value=v, rid=gen_id(rng, pname, allow_null=True))
    if r < 0.8:
        msg = cc.gen_str(rng) if rng.random() < 0.9 else json.dumps(rng.choice(FORWARDED), separators=(',', ':'))
        if rng.random() < 0.08:
            # long error messages (an error that echoes the peer's arguments back): around 1 KiB,
            # 4 KiB and 64 KiB, ASCII and multi-byte
            n = rng.choice((1023, 1024, 1025, 1026, 2048, 4095, 4097, 65535, 65537))
            msg = (rng.choice(('e', 'é', '\u65e5', '\U0001f600', 'ab"\\\n')) * n)[:n]
        rid = gen_id(rng, pname, allow_null=True)
        if rng.random() < 0.05:
            rid = json.dumps(rng.choice(FORWARDED), separators=(',', ':'))
        return RT(pname, 'error', code=cc.gen_int(rng), message=msg, rid=rid)
    members = []
    for _ in range(rng.randint(1, 5)):
        if rng.random() < 0.65:
            members.append(('R', cc.gen_str(rng), gen_args(rng, pname), gen_id(rng, 'v2')))
        else:
            members.append(('N', cc.gen_str(rng), gen_args(rng, pname)))
    return RT(pname, 'batch', members=members)


def norm(v):
    """tuples and lists are the same JSON array"""
    if type(v) in (list, tuple):
        return [norm(x) for x in v]
    if type(v) is dict:
        return {k: norm(x) for k, x in v.items()}
    return v


def loose_admits(rid):
    """ids of the property's quantifier for 2.0/Loose: numbers, strings, null (a JSON boolean is
    not a number)"""
    return rid is None or (isinstance(rid, (int, float, str)) and not isinstance(rid, bool))


def eval_roundtrip(mod, rt, loop):
    """Runs the real encoder/decoders for one case.  Returns dict with
    'violations' [(key, why)], 'model' [(driver line, expected output, label)], 'tags' [...]"""
    P = cc.protos(mod)
    cls = P[rt.pname]
    viol, mlines, tags = [], [], [rt.what]
    pn = rt.pname

    def bad(key, why):
        viol.append((key, why))

    def encode(f):
        try:
            return ('ok', f())
        except BaseException as e:   # noqa
            if isinstance(e, (KeyboardInterrupt, SystemExit)):
                raise
            return ('exc', e)

    if rt.what in ('request', 'notification'):
        args = rt.args
        rid = rt.rid if rt.what == 'request' else None
        if rt.what == 'request':
            enc = encode(lambda: cls.request_message(mod.Request(rt.method, args), rid))
        else:
            enc = encode(lambda: cls.notification_message(mod.Notification(rt.method, args)))
        mline = f'req {pn} {S(rt.method)} {E(args)} {E(rid)}'
        named_v1 = pn == 'v1' and isinstance(args, dict)
        if enc[0] == 'exc':
            e = enc[1]
            mlines.append((mline, cc.exc_line(mod, e), 'encode'))
            if named_v1 and isinstance(e, mod.ProtocolError):
                tags.append('v1-named-rejected')
            else:
                bad(f'c04:encode-raises-{type(e).__name__}',
                    f'{rt.what}_message raised {type(e).__name__}')
            return {'violations': viol, 'model': mlines, 'tags': tags}
        b = enc[1]
        if named_v1:
            bad('c04:v1-named-args-emitted', '1.0 encoder emitted a request with named arguments')
        obj, why = check_one_line_json(b)
        if why:
            bad('c04:not-one-line-json', why)
            return {'violations': viol, 'model': mlines, 'tags': tags}
        why = check_wire_format(pn, obj, 'request')
        if why:
            bad('c04:wire-format', why)
        mlines.append((mline, 'ok ' + E(cc.canon_msg(obj) if isinstance(obj, dict) else [cc.canon_msg(x) for x in obj]), 'encode'))
        if not cc.has_float(obj):
            mlines.append((f'dumps {E(obj)}', 'D' + b.decode(), 'dumps'))
            mlines.append((f'loads {b.hex()}', 'L' + E(obj), 'loads'))
        o = decode_raw(mod, cls, b)
        line = outcome_line(mod, o)
        mlines.append((f'dec {pn} {E(obj)}', line, 'decode'))
        # equal item, same id
        ok = o[0] == 'ok' and isinstance(o[1], mod.Request if rt.what == 'request' else mod.Notification) \
            and type(o[1]) is (mod.Request if rt.what == 'request' else mod.Notification) \
            and same(o[1].method, rt.method) and same(norm(o[1].args), norm(args)) \
            and same(o[2], rid)
        if not ok:
            bad(f'c04:roundtrip-{rt.what}', f'decoding the encoded {rt.what} gave {line[:80]}')
        if isinstance(args, dict) and not args and 'params' in obj and obj['params'] != {}:
            bad('c04:empty-dict-params', 'empty dict params not preserved')
        if not args:
            tags.append('empty-params-' + type(args).__name__)
        _cross(mod, rt, b, obj, line, viol, mlines, tags, rid)
    elif rt.what in ('result', 'error'):
        rid = rt.rid
        if rt.what == 'result':
            enc = encode(lambda: cls.response_message(rt.value, rid))
            mline = f'res {pn} {E(rt.value)} {E(rid)}'
        else:
            enc = encode(lambda: cls.response_message(mod.RPCError(rt.code, rt.message), rid))
            mline = f'err {pn} {E(rt.code)} {E(rt.message)} {E(rid)}'
        if enc[0] == 'exc':
            bad(f'c04:encode-raises-{type(enc[1]).__name__}', f'response_message raised {type(enc[1]).__name__}')
            return {'violations': viol, 'model': mlines, 'tags': tags}
        b = enc[1]
        obj, why = check_one_line_json(b)
        if why:
            bad('c04:not-one-line-json', why)
            return {'violations': viol, 'model': mlines, 'tags': tags}
        why = check_wire_format(pn, obj, rt.what)
        if why:
            bad('c04:wire-format', why)
        mlines.append((mline, 'ok ' + E(cc.canon_msg(obj) if isinstance(obj, dict) else [cc.canon_msg(x) for x in obj]), 'encode'))
        if not cc.has_float(obj):
            mlines.append((f'dumps {E(obj)}', 'D' + b.decode(), 'dumps'))
            mlines.append((f'loads {b.hex()}', 'L' + E(obj), 'loads'))
        o = decode_raw(mod, cls, b)
        line = outcome_line(mod, o)
        mlines.append((f'dec {pn} {E(obj)}', line, 'decode'))
        if rt.what == 'result':
            ok = o[0] == 'ok' and isinstance(o[1], mod.Response) \
                and not isinstance(o[1].result, Exception) \
                and same(norm(o[1].result), norm(rt.value)) and same(o[2], rid)
            if rt.value is None:
                tags.append('result-null')
        else:
            ok = o[0] == 'ok' and isinstance(o[1], mod.Response) \
                and isinstance(o[1].result, mod.RPCError) \
                and same(o[1].result.code, rt.code) and same(o[1].result.message, rt.message) \
                and same(o[2], rid)
        if not ok:
            bad(f'c04:roundtrip-{rt.what}', f'decoding the encoded {rt.what} gave {line[:80]}')
        _cross(mod, rt, b, obj, line, viol, mlines, tags, rid)
    else:   # batch
        items, ids = [], []
        for m in rt.members:
            if m[0] == 'R':
                items.append(mod.Request(m[1], m[2]))
                ids.append(m[3])
            else:
                items.append(mod.Notification(m[1], m[2]))
        enc = encode(lambda: cls.batch_message(mod.Batch(items), ids))
        mem = ' '.join(f'R {S(m[1])} {E(m[2])} {E(m[3])}' if m[0] == 'R' else f'N {S(m[1])} {E(m[2])}'
                       for m in rt.members)
        mline = f'batch {pn} {len(rt.members)} {mem}'
        if enc[0] == 'exc':
            e = enc[1]
            mlines.append((mline, cc.exc_line(mod, e), 'encode'))
            if pn == 'v1' and isinstance(e, mod.ProtocolError):
                tags.append('v1-batch-rejected')
            else:
                bad(f'c04:encode-raises-{type(e).__name__}', f'batch_message raised {type(e).__name__}')
            return {'violations': viol, 'model': mlines, 'tags': tags}
        b = enc[1]
        if pn == 'v1':
            bad('c04:v1-batch-emitted', '1.0 encoder emitted a batch')
        obj, why = check_one_line_json(b)
        if why:
            bad('c04:not-one-line-json', why)
            return {'violations': viol, 'model': mlines, 'tags': tags}
        if not isinstance(obj, list) or len(obj) != len(rt.members):
            bad('c04:batch-shape', 'batch message is not an array with one entry per member')
            return {'violations': viol, 'model': mlines, 'tags': tags}
        for x in obj:
            why = check_wire_format(pn, x, 'request')
            if why:
                bad('c04:wire-format', why)
        mlines.append((mline, 'ok ' + E(cc.canon_msg(obj) if isinstance(obj, dict) else [cc.canon_msg(x) for x in obj]), 'encode'))
        # the batch joins the member messages with ', '
        try:
            parts = [cls.request_message(it, m[3]) if m[0] == 'R' else cls.notification_message(it)
                     for it, m in zip(items, rt.members)]
            tags.append('batch-join-comma-space' if b == b'[' + b', '.join(parts) + b']' else 'batch-join-other')
        except Exception:
            pass
        o = decode_raw(mod, cls, b)
        line = outcome_line(mod, o)
        mlines.append((f'dec {pn} {E(obj)}', line, 'decode'))
        # decoding through a connection gives the same members with the same ids
        asyncio.set_event_loop(loop)
        try:
            conn = mod.JSONRPCConnection(cls)
            got = conn.receive_message(b)
        except BaseException as e:   # noqa
            if isinstance(e, (KeyboardInterrupt, SystemExit)):
                raise
            bad('c04:roundtrip-batch', f'receiving the encoded batch raised {type(e).__name__}')
            return {'violations': viol, 'model': mlines, 'tags': tags}
        ok = len(got) == len(items)
        reqs = []
        if ok:
            for g, it, m in zip(got, items, rt.members):
                if type(g) is not type(it) or not same(g.method, it.method) \
                        or not same(norm(g.args), norm(it.args)):
                    ok = False
                if isinstance(g, mod.Request):
                    reqs.append((g, m[3]))
        if ok and reqs:
            # ids: answer request k with result k and read the ids back from the batch response
            last = None
            for k, (g, _rid) in enumerate(reqs):
                last = g.send_result(k)
            try:
                resp = json.loads(last.decode())
                got_ids = {r['result']: r['id'] for r in resp}
                for k, (_g, rid) in enumerate(reqs):
                    if not same(got_ids.get(k, ABSENT), rid):
                        ok = False
            except Exception:
                ok = False
        if not ok:
            bad('c04:roundtrip-batch', 'decoding the encoded batch did not give the same members/ids')
        # detection on a batch
        if pn in ('v2', 'loose', 'auto'):
            det = detect_line(mod, b)
            mlines.append((f'detect {E(obj)}', det, 'detect'))
            if det != 'v2':
                bad('c04:autodetect', f'auto-detection chose {det} for a 2.0 batch')
    return {'violations': viol, 'model': mlines, 'tags': tags}


def _cross(mod, rt, b, obj, line, viol, mlines, tags, rid):
    """Loose agreement and auto-detection for a strict-encoder output `b` whose own decoder
    gave `line`."""
    P = cc.protos(mod)
    pn = rt.pname
    if pn in ('v1', 'v2'):
        if pn == 'v2' or loose_admits(rid):
            lo = decode_raw(mod, P['loose'], b)
            lline = outcome_line(mod, lo)
            mlines.append((f'dec loose {E(obj)}', lline, 'decode-loose'))
            if lline != line:
                viol.append(('c04:loose-disagrees-' + pn,
                             f'loose decoder gives {lline[:60]} where {pn} gives {line[:60]}'))
        else:
            tags.append('v1-id-outside-loose')
    # auto-detection settles on a protocol that decodes the message as its origin would
    if pn == 'v2' or (pn == 'v1' and loose_admits(rid)) or pn in ('loose', 'auto'):
        det = detect_line(mod, b)
        mlines.append((f'detect {E(obj)}', det, 'detect'))
        tags.append('detect-' + det.split(' ')[0])
        if det in P:
            dl = outcome_line(mod, decode_raw(mod, P[det], b))
            if dl != line:
                viol.append(('c04:autodetect',
                             f'detected {det} decodes the first message as {dl[:60]}, origin {pn} as {line[:60]}'))
        else:
            viol.append(('c04:autodetect', f'detect_protocol failed on an encoder output: {det[:60]}'))


def evaluate_roundtrips(ctx, res, rts, scope):
    if not rts:
        return
    _init(ctx.repo)
    mod = _mod
    loop = asyncio.new_event_loop()
    try:
        outs = [eval_roundtrip(mod, rt, loop) for rt in rts]
    finally:
        asyncio.set_event_loop(None)
        loop.close()
    lines, owner = [], []
    for i, o in enumerate(outs):
        for (ml, exp, label) in o['model']:
            lines.append(ml)
            owner.append((i, exp, label))
    model = model_lines(ctx, lines)
    for i, (rt, o) in enumerate(zip(rts, outs)):
        case = None
        for key, why in o['violations']:
            case = case or dict(rt.case(), scope=scope)
            res.violation(key, case, why)
        for t in o['tags']:
            res.count(f'rt_{rt.pname}_{t}' if t in ('request', 'notification', 'result', 'error', 'batch')
                      else f'rt_{t}')
        res.nontrivial(('rt', rt.pname, rt.what, E(rt.case().get('args', rt.case().get('value', '')))[:200]))
    if model is not None:
        for (i, exp, label), got in zip(owner, model):
            res.count('model_' + label)
            if got != exp:
                res.disagreement(dict(rts[i].case(), scope=scope, step=label), exp, got)
    res['evaluations'] += len(rts)


# ------------------------------------------------------------------------------ histories
# "decoding the bytes yields an equal item" holds every time the bytes are decoded, whatever was
# decoded (and whatever the receiver did with it) before: a decoder entry point is run on the
# bytes of an encoded item, the decoded objects are modified in place (a handler is free to sort /
# pop / update the argument list it was handed), other messages may be decoded, and then EQUAL
# bytes (a distinct bytes object) are decoded again - by the same class, by another class that
# gives the message the same meaning, through a fresh connection, or by detect_protocol.
ENTRIES = ('item', 'recv', 'detect')


def poison(v, how, seen=None):
    """modify every list / dict reachable from v in place"""
    seen = seen if seen is not None else set()
    if id(v) in seen:
        return
    seen.add(id(v))
    if type(v) is list:
        for x in list(v):
            poison(x, how, seen)
        if how == 'clear':
            v.clear()
        else:
            v.insert(0, 'MUT')
    elif type(v) is dict:
        for x in list(v.values()):
            poison(x, how, seen)
        if how == 'clear':
            v.clear()
        else:
            v['MUT'] = 0


def poison_decoded(mod, got, how):
    for o in got:
        if isinstance(o, (mod.Request, mod.Notification)):
            poison(o.args, how)
        elif isinstance(o, mod.Response):
            poison(o.result, how)
        else:
            poison(o, how)


class Hist:
    """rt: the encoded item; steps: list of ['dec', entry, pname] | ['mut', how] | ['other'] |
    ['encmut', how] (modify OUR argument object in place and encode again)"""
    __slots__ = ('rt', 'steps')

    def __init__(self, rt, steps):
        self.rt, self.steps = rt, steps

    def case(self):
        return {'kind': 'history', 'rt': self.rt.case(), 'steps': self.steps}

    @staticmethod
    def from_case(d):
        return Hist(RT.from_case(d['rt']), [list(x) for x in d['steps']])


def same_meaning(origin, rid):
    """classes that must decode an `origin`-encoded message exactly as `origin` does"""
    if origin == 'v1':
        return ('v1', 'loose') if loose_admits(rid) else ('v1',)
    return ('v2', 'loose', 'auto')


def gen_history(rng):
    while True:
        rt = gen_rt(rng)
        if rt.pname == 'v1' and (rt.what == 'batch' or isinstance(rt.args, dict)):
            continue        # refused by the encoder: nothing to decode
        break
    rid = rt.rid if rt.what != 'batch' else 0
    classes = same_meaning(rt.pname, rid)
    server_side = rt.what in ('request', 'notification', 'batch')

    def dec():
        r = rng.random()
        entry = 'item' if r < 0.55 or not server_side else ('recv' if r < 0.85 else 'detect')
        if entry == 'detect' and rt.pname == 'v1' and not loose_admits(rid):
            entry = 'item'
        return ['dec', entry, rng.choice(classes)]
    how = rng.choice(('insert', 'insert', 'clear'))
    shape = rng.random()
    if shape < 0.5:
        steps = [dec(), ['mut', how], dec()]
    elif shape < 0.65:
        steps = [dec(), ['mut', how], ['other'], dec()]
    elif shape < 0.8:
        steps = [dec(), dec(), ['mut', how], dec()]
    elif shape < 0.9 and rt.what in ('request', 'notification', 'result'):
        steps = [dec(), ['encmut', 'insert'], dec()]
    else:
        steps = [dec(), ['mut', how], dec(), ['mut', 'insert'], dec()]
    return Hist(rt, steps)


def _copy(v):
    if type(v) in (list, tuple):
        return type(v)(_copy(x) for x in v)
    if type(v) is dict:
        return {k: _copy(x) for k, x in v.items()}
    return v


def eval_history(mod, h, loop):
    """returns {'violations': [(key, why)], 'model': [(line, expected, label)], 'tags': [...]}"""
    P = cc.protos(mod)
    rt = h.rt
    cls0 = P[rt.pname]
    viol, mlines, tags = [], [], ['history']
    # our own objects; `want` is what every decode must yield
    if rt.what in ('request', 'notification'):
        args = _copy(rt.args)
        item = (mod.Request if rt.what == 'request' else mod.Notification)(rt.method, args)

        def encode():
            return cls0.request_message(item, rt.rid) if rt.what == 'request' else cls0.notification_message(item)

        def want():
            return [(rt.what, rt.method, norm(args), rt.rid if rt.what == 'request' else None)]
    elif rt.what == 'result':
        value = _copy(rt.value)

        def encode():
            return cls0.response_message(value, rt.rid)

        def want():
            return [('result', None, norm(value), rt.rid)]
    elif rt.what == 'error':
        def encode():
            return cls0.response_message(mod.RPCError(rt.code, rt.message), rt.rid)

        def want():
            return [('error', rt.code, rt.message, rt.rid)]
    else:
        members = [tuple(_copy(list(m))) for m in rt.members]
        items = [mod.Request(m[1], m[2]) if m[0] == 'R' else mod.Notification(m[1], m[2]) for m in members]

        def encode():
            return cls0.batch_message(mod.Batch(items), [m[3] for m in members if m[0] == 'R'])

        def want():
            return [('request', m[1], norm(m[2]), m[3]) if m[0] == 'R' else ('notification', m[1], norm(m[2]), None)
                    for m in members]
    try:
        b = encode()
    except Exception as e:      # noqa: encoder refusals are the round-trip family's business
        return {'violations': viol, 'model': mlines, 'tags': ['history-skip']}
    decoded = []

    def describe(objs_with_ids):
        out = []
        for o, rid in objs_with_ids:
            if type(o) is mod.Request:
                out.append(('request', o.method, norm(o.args), rid))
            elif type(o) is mod.Notification:
                out.append(('notification', o.method, norm(o.args), None))
            elif isinstance(o, mod.Response) and isinstance(o.result, mod.RPCError):
                out.append(('error', o.result.code, o.result.message, rid))
            elif isinstance(o, mod.Response) and not isinstance(o.result, Exception):
                out.append(('result', None, norm(o.result), rid))
            else:
                out.append(('other', type(o).__name__, None, None))
        return out

    def equal_descr(a, b_, ids):
        if len(a) != len(b_):
            return False
        for x, y in zip(a, b_):
            if x[0] != y[0] or not same(x[1], y[1]) or not same(x[2], y[2]):
                return False
            if ids and not same(x[3], y[3]):
                return False
        return True

    nth = 0
    for step in h.steps:
        if step[0] == 'mut':
            poison_decoded(mod, decoded, step[1])
            continue
        if step[0] == 'other':
            try:
                P['v2'].message_to_item(b'{"jsonrpc":"2.0","method":"other","params":[1,[2]],"id":99}')
            except Exception:     # noqa
                pass
            continue
        if step[0] == 'encmut':
            # our own argument object changes; the next encoding must say so
            if rt.what in ('request', 'notification'):
                poison(args, step[1])
            elif rt.what == 'result':
                poison(value, step[1])
            try:
                b = encode()
            except Exception as e:     # noqa
                viol.append((f'c04:encode-raises-{type(e).__name__}', 'encoding the modified item raised'))
                break
            continue
        _dec, entry, pn = step
        nth += 1
        msg = bytes(bytearray(b))       # equal bytes, a distinct object
        expected = want()
        try:
            if entry == 'item':
                item_, rid_ = P[pn].message_to_item(msg)
                if isinstance(item_, list):
                    # a batch: decode the members the way a connection does
                    asyncio.set_event_loop(loop)
                    got = mod.JSONRPCConnection(P[pn]).receive_message(bytes(bytearray(b)))
                    decoded.append(item_)
                    decoded.extend(got)
                    d = describe([(g, None) for g in got])
                    ids = False
                    line = None
                else:
                    decoded.append(item_)
                    d = describe([(item_, rid_)])
                    ids = True
                    line = cc.item_line(mod, item_, rid_)
                if line is not None:
                    obj = json.loads(msg.decode())
                    mlines.append((f'dec {pn} {E(obj)}', line, 'history-decode'))
            elif entry == 'recv':
                asyncio.set_event_loop(loop)
                got = mod.JSONRPCConnection(P[pn]).receive_message(msg)
                decoded.extend(got)
                d = describe([(g, None) for g in got])
                ids = False
            else:
                det = mod.JSONRPCAutoDetect.detect_protocol(msg)
                item_, rid_ = det.message_to_item(bytes(bytearray(b)))
                if isinstance(item_, list):
                    asyncio.set_event_loop(loop)
                    got = mod.JSONRPCConnection(det).receive_message(bytes(bytearray(b)))
                    decoded.append(item_)
                    decoded.extend(got)
                    d = describe([(g, None) for g in got])
                    ids = False
                else:
                    decoded.append(item_)
                    d = describe([(item_, rid_)])
                    ids = True
        except BaseException as e:     # noqa
            if isinstance(e, (KeyboardInterrupt, SystemExit)):
                raise
            viol.append((f'c04:roundtrip-{rt.what}',
                         f'decode #{nth} ({entry}, {pn}) of the encoded {rt.what} raised {type(e).__name__}'))
            break
        if not equal_descr(d, expected, ids):
            viol.append((f'c04:roundtrip-{rt.what}',
                         f'decode #{nth} ({entry}, {pn}) of the encoded {rt.what} did not give the item that '
                         f'was encoded (earlier decodes of equal bytes had been modified in place / other '
                         f'messages decoded in between): got {str(d)[:120]}'))
            break
        tags.append('history-' + entry)
    return {'violations': viol, 'model': mlines, 'tags': tags}


def evaluate_histories(ctx, res, hs, scope):
    if not hs:
        return
    _init(ctx.repo)
    mod = _mod
    loop = asyncio.new_event_loop()
    try:
        outs = [eval_history(mod, h, loop) for h in hs]
    finally:
        asyncio.set_event_loop(None)
        loop.close()
    lines, owner = [], []
    for i, o in enumerate(outs):
        for (ml, exp, label) in o['model']:
            lines.append(ml)
            owner.append((i, exp, label))
    model = model_lines(ctx, lines)
    for h, o in zip(hs, outs):
        for key, why in o['violations']:
            res.violation(key, dict(h.case(), scope=scope), why)
        for t in o['tags']:
            res.count('hist_' + t)
        res.nontrivial(('hist', h.rt.pname, h.rt.what, str(h.steps)))
    if model is not None:
        for (i, exp, label), got in zip(owner, model):
            res.count('model_' + label)
            if got != exp:
                res.disagreement(dict(hs[i].case(), scope=scope, step=label), exp, got)
    res['evaluations'] += len(hs)


# ------------------------------------------------------------------------------ connection histories
# "auto-detection settles on a protocol": a connection created with JSONRPCAutoDetect that has
# seen its first (parseable) message must from then on behave, for EVERY later operation, exactly
# as a connection created with the protocol detected on that first message.  A history of >= 3
# received messages / sent requests is run through one auto-detecting connection and through a
# reference connection fixed to `detect_protocol(first message)`; every observable is compared:
# items returned (kind, method, args), the bytes each request's `send_result` gives back (reply
# format and id), exceptions (type, code, reply bytes), the bytes of requests sent, and the
# state of the futures of the requests sent.
def _conn_messages(mod):
    R, N, B = mod.Request, mod.Notification, mod.Batch
    v1, v2 = mod.JSONRPCv1, mod.JSONRPCv2
    E_ = mod.RPCError
    # responses that are not answers to anything carry string ids (no connection draws those);
    # real answers are the `answer` steps, built from the ids read off each connection's own wire
    return {
        'v1req': lambda: v1.request_message(R('a', [1]), 11),
        'v1req2': lambda: v1.request_message(R('b', ['x', [2]]), 'k'),
        'v1notif': lambda: v1.notification_message(N('n', [])),
        'v1res': lambda: v1.response_message([1, {'a': 2}], 'r0'),
        'v1err': lambda: v1.response_message(E_(5, 'oops'), 'r1'),
        'v2req': lambda: v2.request_message(R('m', [2]), 21),
        'v2named': lambda: v2.request_message(R('m', {'x': 1}), 22),
        'v2notif': lambda: v2.notification_message(N('m', [2])),
        'v2res': lambda: v2.response_message('r', 'r0'),
        'v2err': lambda: v2.response_message(E_(-32601, 'nope'), 'r1'),
        'v2batch': lambda: v2.batch_message(B([R('p', []), N('q', {}), R('r', [3])]), [31, 32]),
        # messages that carry a message of the OTHER version as data
        'v1reqfwd2': lambda: v1.request_message(R('fwd', [{'jsonrpc': '2.0', 'method': 'm', 'id': 1}]), 41),
        'v1notiffwd2': lambda: v1.notification_message(N('log', [[{'jsonrpc': '2.0', 'result': 1, 'id': 2}]])),
        'v1resfwd2': lambda: v1.response_message({'seen': {'jsonrpc': '2.0'}}, 'r0'),
        'barereqfwd2': lambda: b'{"method":"fwd","params":{"msg":{"jsonrpc" : "2.0","method":"x"}},"id":42}',
        'v2reqfwd1': lambda: v2.request_message(R('fwd', [{'result': 1, 'error': None, 'id': 9}]), 43),
        'v2resfwd1': lambda: v2.response_message({'jsonrpc': '1.0', 'method': 'm', 'params': [], 'id': 1}, 'r1'),
        'v2resbatch': lambda: b'[' + v2.response_message(1, 'r0') + b', ' + v2.response_message(2, 'r1') + b']',
        'barereq': lambda: b'{"method":"m","id":5}',
        'bareres': lambda: b'{"result":1,"id":"r0"}',
        'v1explicit': lambda: b'{"jsonrpc":"1.0","method":"m","params":[],"id":3}',
        'bothnull': lambda: b'{"result":null,"error":null,"id":"r1"}',
        'mixedbatch': lambda: b'[' + v1.request_message(R('a', [1]), 1) + b', ' + v2.request_message(R('m', []), 2) + b']',
        'emptybatch': lambda: b'[]',
        'number': lambda: b'5',
        'badjson': lambda: b'{"method":',
        'badutf8': lambda: b'{"method":"\xff"}',
    }


CONN_QUICK = ('v1req', 'v1req2', 'v1notif', 'v1res', 'v2req', 'v2named', 'v2notif', 'v2res', 'v2err',
              'v2batch', 'barereq', 'bareres', 'v1explicit', 'badjson', 'v1reqfwd2', 'v2reqfwd1')
# the class whose encoder produced the message (for "decodes the first message exactly as its
# originating version would")
CONN_ORIGIN = {'v1req': 'v1', 'v1req2': 'v1', 'v1notif': 'v1', 'v1res': 'v1', 'v1err': 'v1',
               'v1reqfwd2': 'v1', 'v1notiffwd2': 'v1', 'v1resfwd2': 'v1',
               'v2req': 'v2', 'v2named': 'v2', 'v2notif': 'v2', 'v2res': 'v2', 'v2err': 'v2', 'v2batch': 'v2',
               'v2reqfwd1': 'v2', 'v2resfwd1': 'v2'}
CONN_ALL = ('v1req', 'v1req2', 'v1notif', 'v1res', 'v1err', 'v2req', 'v2named', 'v2notif', 'v2res', 'v2err',
            'v2batch', 'v2resbatch', 'barereq', 'bareres', 'v1explicit', 'bothnull', 'mixedbatch',
            'emptybatch', 'number', 'badjson', 'badutf8', 'v1reqfwd2', 'v1notiffwd2', 'v1resfwd2',
            'barereqfwd2', 'v2reqfwd1', 'v2resfwd1')
CONN_SENDS = ('send', 'sendnamed', 'sendnotif', 'sendbatch', 'answer')


def conn_histories(names, rng, n_random):
    """every history of three received messages over `names`, then random longer ones with
    requests sent in between (and answered: `answer` = a response, in the format of the first
    message's originator, to the oldest request still outstanding)"""
    for a in names:
        for b in names:
            for c in names:
                yield [a, b, c]
    for _ in range(n_random):
        h = [rng.choice(CONN_ALL)]
        for _ in range(rng.randint(2, 6)):
            h.append(rng.choice(CONN_ALL) if rng.random() < 0.65 else rng.choice(CONN_SENDS))
        yield h


def _describe_item(mod, it):
    if isinstance(it, (mod.Request, mod.Notification)):
        return (type(it).__name__, it.method, E(norm(it.args)) if _is_j(it.args) else repr(type(it.args)))
    return (type(it).__name__,)


def _is_j(v):
    try:
        E(v)
        return True
    except Exception:     # noqa
        return False


def _fut_state(f):
    if not f.done():
        return 'pending'
    if f.cancelled():
        return 'cancelled'
    e = f.exception()
    if e is not None:
        return ('exc', type(e).__name__, getattr(e, 'code', None))
    r = f.result()
    return ('res', E(norm(r)) if _is_j(norm(r)) else repr(type(r)))


def _conn_op(mod, conn, futs, name, msgs, answer_fmt):
    """one step on one connection -> observable outcome"""
    try:
        if name == 'send':
            m, f = conn.send_request(mod.Request('q', [len(futs)]))
            futs.append(f)
            return ('sent', m)
        if name == 'sendnamed':
            m, f = conn.send_request(mod.Request('q', {'k': len(futs)}))
            futs.append(f)
            return ('sent', m)
        if name == 'sendnotif':
            return ('sent', conn.send_notification(mod.Notification('t', [1])))
        if name == 'sendbatch':
            m, f = conn.send_batch(mod.Batch([mod.Request('x', []), mod.Notification('y', []),
                                              mod.Request('z', [1])]))
            if f is not None:
                futs.append(f)
            return ('sent', m)
        if name == 'answer':
            msg = answer_fmt
        else:
            msg = msgs[name]()
        got = conn.receive_message(bytes(bytearray(msg)))
        out = []
        for k, it in enumerate(got):
            d = _describe_item(mod, it)
            if isinstance(it, mod.Request):
                # the reply this request would get: shows the reply format and the id bound to it
                d = d + (it.send_result(k),)
            out.append(d)
        return ('items', out)
    except BaseException as e:     # noqa
        if isinstance(e, (KeyboardInterrupt, SystemExit)):
            raise
        if isinstance(e, mod.ProtocolError):
            return ('pe', e.code, e.error_message,
                    '-' if e.response_msg_id is id else cc.safe_enc(e.response_msg_id))
        return ('exc', type(e).__name__)


def _wire_ids(b):
    try:
        p = json.loads(b.decode())
    except Exception:     # noqa
        return []
    ms = p if isinstance(p, list) else [p]
    return [m['id'] for m in ms if isinstance(m, dict) and 'id' in m]


def _norm_sent(b, drawn):
    """a sent message with its ids replaced by the order in which this connection drew them (which
    ids a connection draws is C01's business; two connections may share a counter)"""
    try:
        p = json.loads(b.decode())
    except Exception:     # noqa
        return b
    for m in (p if isinstance(p, list) else [p]):
        if isinstance(m, dict) and 'id' in m:
            key = E(m['id']) if _is_j(m['id']) else repr(m['id'])
            if key not in drawn:
                drawn.append(key)
            m['id'] = ['drawn', drawn.index(key)]
    return E(p) if _is_j(p) else repr(p)


class _Side:
    def __init__(self, conn):
        self.conn, self.futs, self.outstanding, self.drawn = conn, [], [], []


def eval_conn_history(mod, names, loop):
    """returns (violation | None, model line, impl classes, detected protocol)"""
    asyncio.set_event_loop(loop)
    P = cc.protos(mod)
    msgs = _conn_messages(mod)
    auto = _Side(mod.JSONRPCConnection(mod.JSONRPCAutoDetect))
    ref = None
    classes, toks, nrecv = [], [], 0
    viol = None
    q0 = None
    first_parse_step = None

    def run(side, name, step):
        """one step on one side; an `answer` is a response (in the format of the detected class) to
        the oldest request this side still has outstanding"""
        answer = None
        if name == 'answer':
            rid = side.outstanding.pop(0)
            answer = (P[q0] if q0 in P else mod.JSONRPCv2).response_message(['ans', step], rid)
        o = _conn_op(mod, side.conn, side.futs, name, msgs, answer)
        if o[0] == 'sent':
            if name != 'sendnotif':
                side.outstanding += _wire_ids(o[1])
            o = ('sent', _norm_sent(o[1], side.drawn))
        return o, answer

    for step, name in enumerate(names):
        sending = name in CONN_SENDS
        if sending and ref is None:
            continue            # nothing is sent before the protocol is known
        if name == 'answer' and not (auto.outstanding and ref.outstanding):
            continue
        if not sending and ref is None:
            # the protocol detected on the first message that parses (public API)
            try:
                q0 = cc.proto_name(mod, mod.JSONRPCAutoDetect.detect_protocol(msgs[name]()))
                if q0 in P:
                    ref = _Side(mod.JSONRPCConnection(P[q0]))
            except Exception:     # noqa: does not parse - detection stays pending
                pass
        oa, msg = run(auto, name, step)
        if not sending:
            msg = msgs[name]()
        if msg is not None:
            nrecv += 1
            try:
                toks.append(E(json.loads(msg.decode())))
            except UnicodeDecodeError:
                toks.append('x:unicode')
            except ValueError:
                toks.append('x:json')
            if oa[0] == 'items':
                kinds = [d[0] for d in oa[1]]
                classes.append('R' if kinds == ['Request'] else 'N' if kinds == ['Notification'] else
                               'V' if not kinds else '?')
            elif oa[0] == 'pe':
                classes.append(f'PE{oa[1]}' if oa[2] is not None else 'V')
            else:
                classes.append('PY' + oa[1])
            if msg.lstrip()[:1] == b'[' and toks[-1][:2] != 'x:':
                classes[-1] = 'B*'          # batches: the connection-level outcome is C01/C02's model
        if first_parse_step is None and ref is not None and not sending:
            first_parse_step = step
            origin = CONN_ORIGIN.get(name)
            if origin in P and viol is None:
                # what a connection of the originating version makes of the same bytes: the item
                # (kind, method, args) resp. the refusal must be the same (reply bytes are in the
                # format of the detected class and are not compared here)
                oo = _conn_op(mod, mod.JSONRPCConnection(P[origin]), [], name, msgs, None)

                def meaning(o):
                    if o[0] == 'items':
                        return ('items', [d[:3] for d in o[1]])
                    if o[0] == 'pe':
                        return ('pe', o[1], o[2] is not None)
                    return o
                if meaning(oa) != meaning(oo):
                    viol = ('c04:autodetect',
                            f'first message {name} (encoded by {origin}): the auto-detecting connection gives '
                            f'{str(meaning(oa))[:140]} where a {origin} connection gives {str(meaning(oo))[:140]} '
                            f'(detected: {q0})')
        if ref is not None:
            orf, _ = run(ref, name, step)
            sa, sr = [_fut_state(f) for f in auto.futs], [_fut_state(f) for f in ref.futs]
            if viol is None and (oa != orf or sa != sr):
                what = 'outcome' if oa != orf else 'futures'
                viol = ('c04:autodetect-not-settled',
                        f'step {step} ({name}): the auto-detecting connection ({what}: {str(oa if oa != orf else sa)[:150]}) '
                        f'differs from a connection created with the protocol detected on the first message '
                        f'({q0}: {str(orf if oa != orf else sr)[:150]})')
    line = f'conn auto {nrecv} ' + ' '.join(toks) if nrecv else None
    return viol, line, classes, q0


def evaluate_conn_histories(ctx, res, hists, scope):
    hists = [list(h) for h in hists]
    if not hists:
        return
    _init(ctx.repo)
    mod = _mod
    loop = asyncio.new_event_loop()
    try:
        outs = [eval_conn_history(mod, h, loop) for h in hists]
    finally:
        asyncio.set_event_loop(None)
        loop.close()
    lines = [o[1] for o in outs if o[1]]
    model = model_lines(ctx, lines)
    k = 0
    for h, (viol, line, classes, q0) in zip(hists, outs):
        case = {'kind': 'connhist', 'steps': h, 'scope': scope}
        if viol:
            res.violation(viol[0], case, viol[1])
        res.count('connhist_first_' + str(q0))
        res.nontrivial(('connhist', tuple(h)))
        if line:
            if model is not None:
                m = model[k]
                mcls, _, mproto = m.partition(' | ')
                mc = mcls.split(' ') if mcls else []
                ok = len(mc) == len(classes) and all(a == b or b == 'B*' for a, b in zip(mc, classes)) \
                    and (q0 is None or mproto == q0 or q0 not in cc.PROTO_NAMES)
                if not ok:
                    res.disagreement(case, ' '.join(classes) + ' | ' + str(q0), m)
                res.count('model_connhist')
            k += 1
    res['evaluations'] += len(hists)


# ------------------------------------------------------------------------------ laws L1 / L1b
def check_laws(ctx, res, rng, n):
    """L1: loads(dumps(v)) = v for JSON-representable v; L1b: '[' + ', '.join(parts) + ']' loads
    to the list of the parts; floats render over a newline-free alphabet; wire self-test."""
    vals = [cc.gen_value(rng, 4) for _ in range(n)] + [cc.nest(rng, d) for d in (1, 10, 100, 400)]
    alphabet = set('0123456789.e+-')
    echo = []
    for v in vals:
        b = cc.to_bytes(v)
        if not same(json.loads(b), v):
            res.disagreement({'kind': 'law', 'value': E(v)}, 'loads(dumps(v)) != v', 'L1', law='L1')
        if b'\n' in b:
            res.violation('c04:dumps-newline', {'kind': 'law', 'value': E(v)}, 'json.dumps output has a newline')
        for x in cc.floats_in(v, []):
            if not set(json.dumps(x)) <= alphabet:
                res.disagreement({'kind': 'law', 'value': E(x)}, json.dumps(x), 'float alphabet', law='L2')
        echo.append('echo ' + E(v))
    for i in range(0, len(vals) - 3, 3):
        parts = [cc.to_bytes(v) for v in vals[i:i + 3]]
        if not same(json.loads(b'[' + b', '.join(parts) + b']'), vals[i:i + 3]):
            res.disagreement({'kind': 'law', 'value': E(vals[i:i + 3])}, 'batch join', 'L1b', law='L1b')
    out = ctx.model(echo)
    if out is not None:
        for ln, got in zip(echo, out):
            if got != ln[5:]:
                res.disagreement({'kind': 'wire', 'value': ln[5:]}, ln[5:], got)
    res.count('law_values', len(vals))


# ------------------------------------------------------------------------------ corpus
def load_corpus(verif):
    path = os.path.join(verif, 'corpus', 'C04.txt')
    dec, rts = [], []
    if os.path.exists(path):
        for line in open(path):
            line = line.strip()
            if not line or line.startswith('#'):
                continue
            d = json.loads(line)
            if d['kind'] == 'decode':
                payload = jwire.dec(d['payload']) if 'payload' in d else json.loads(d['json'])
                dec.append((d['proto'], payload))
            elif d['kind'] == 'roundtrip':
                rts.append(RT.from_case(d))
    return dec, rts


def load_corpus_connhists(verif):
    path = os.path.join(verif, 'corpus', 'C04.txt')
    out = []
    if os.path.exists(path):
        for line in open(path):
            line = line.strip()
            if line and not line.startswith('#'):
                d = json.loads(line)
                if d.get('kind') == 'connhist':
                    out.append(list(d['steps']))
    return out


def load_corpus_histories(verif):
    path = os.path.join(verif, 'corpus', 'C04.txt')
    out = []
    if os.path.exists(path):
        for line in open(path):
            line = line.strip()
            if line and not line.startswith('#'):
                d = json.loads(line)
                if d.get('kind') == 'history':
                    out.append(Hist.from_case(d))
    return out


RULE = ('decode case = (protocol class, payload); exhaustive over every subset of the members '
        '{jsonrpc, method, params, id, result, error} x the listed value kinds per member '
        '(quick: first 4 kinds of each member, thorough: all 7-12), under each of v1, v2, Loose '
        'and AutoDetect (+ detect_protocol); plus seeded random payloads (extra members, permuted '
        'order, batches, non-objects) and seeded encode->decode round trips of requests, '
        'notifications, results, errors and batches (any-Unicode methods incl. lone surrogates and '
        'control characters, nesting to depth 200, ints to 4000 digits, all finite float classes, '
        '[] / () / {} params) with Loose and auto-detection cross-decoding; non-trivial = distinct '
        '(protocol, outcome line) for decodes other than plain INVALID_REQUEST, distinct '
        '(protocol, kind, value) for round trips; histories: an encoded item is decoded (message_to_item '
        '/ a fresh connection / detect_protocol, by every class that gives it the same meaning), the '
        'decoded objects are modified in place, other messages decoded, and equal bytes decoded again - '
        'every decode must yield the item that was encoded; connection histories: every triple of '
        'received messages over 14 (thorough: 21) message classes (1.0 / 2.0 / bare requests, '
        'notifications, results, errors, batches, unparseable bytes) and random histories of 3-7 steps '
        'with requests sent and answered in between, through one JSONRPCConnection(JSONRPCAutoDetect) '
        'and through a reference connection created with the protocol detected on the first message: '
        'all observables must agree')


def random_payload(rng):
    r = rng.random()
    if r < 0.7:
        p = {}
        for m in MEMBERS:
            if rng.random() < 0.5:
                p[m] = rng.choice(GRID[m]) if rng.random() < 0.7 else cc.gen_value(rng, 2)
                if m in ('params', 'result', 'error') and rng.random() < 0.1:
                    p[m] = gen_forwarded(rng) if m != 'error' else {'code': 1, 'message': 'm',
                                                                    'data': gen_forwarded(rng)}
        if rng.random() < 0.2:
            p[cc.gen_str(rng)] = cc.gen_value(rng, 1)
        items = list(p.items())
        rng.shuffle(items)
        return dict(items)
    if r < 0.85:
        return [random_payload(rng) if rng.random() < 0.8 else cc.gen_value(rng, 1)
                for _ in range(rng.randint(0, 3))]
    return cc.gen_value(rng, 2)


def depth_of(ctx):
    """quick / drift (quick tier after a fingerprint drift or a broken obligation: must stay
    within ~90 s) / thorough"""
    if ctx.tier == 'thorough':
        return 'thorough'
    return 'drift' if ctx.deep else 'quick'


SCALE = {
    #            laws  grid values/member  random payloads  round trips  histories  conn histories
    'quick':    (400,  QUICK_N,            4000,            3000,        600,       1500),
    'drift':    (1000, QUICK_N,            30000,           8000,        3000,      6000),
    'thorough': (3000, None,               60000,           40000,       12000,     60000),
}


def run(ctx):
    res = Results()
    rng = ctx.rng
    nlaws, npm, nrand, nrt, nhist, nconn = SCALE[depth_of(ctx)]
    # (a) corpus first
    cdec, crts = load_corpus(ctx.verif)
    evaluate_decode(ctx, res, cdec, 'corpus')
    evaluate_roundtrips(ctx, res, crts, 'corpus')
    res['scopes']['corpus'] = len(cdec) + len(crts)
    # (b) laws + wire self-test
    check_laws(ctx, res, rng, nlaws)
    # (c) exhaustive structural variants
    cases = [(pn, p) for p in grid_payloads(npm) for pn in cc.PROTO_NAMES]
    evaluate_decode(ctx, res, cases, 'grid')
    res['scopes']['grid'] = {'values_per_member': {m: (len(GRID[m]) if npm is None else min(npm, len(GRID[m])))
                                                   for m in MEMBERS},
                             'payloads': grid_size(npm), 'protocols': list(cc.PROTO_NAMES)}
    # (d) random payloads
    cases = [(rng.choice(cc.PROTO_NAMES), random_payload(rng)) for _ in range(nrand)]
    evaluate_decode(ctx, res, cases, 'random-payload')
    res['scopes']['random_payloads'] = nrand
    # (e) round trips
    rts = [gen_rt(rng) for _ in range(nrt)]
    evaluate_roundtrips(ctx, res, rts, 'roundtrip')
    res['scopes']['roundtrips'] = nrt
    for rt in rts[:3]:
        res.sample(rt.case())
    # (f) histories: decode / modify in place / decode equal bytes again
    hs = load_corpus_histories(ctx.verif) + [gen_history(rng) for _ in range(nhist)]
    evaluate_histories(ctx, res, hs, 'history')
    res['scopes']['histories'] = len(hs)
    # (g) connection histories: auto-detection settles on the first message
    names = CONN_ALL if depth_of(ctx) == 'thorough' else CONN_QUICK
    chs = load_corpus_connhists(ctx.verif) + list(conn_histories(names, rng, nconn))
    evaluate_conn_histories(ctx, res, chs, 'connection-history')
    res['scopes']['connection_histories'] = {'messages': list(names), 'exhaustive_length': 3,
                                             'histories': len(chs)}
    res['scopes']['depth'] = depth_of(ctx)
    return res.finish(RULE, exhaustive=True)


def replay(ctx, case):
    if 'case' in case and isinstance(case['case'], dict):
        case = case['case']
    res = Results()
    if case.get('kind') == 'decode':
        evaluate_decode(ctx, res, [(case['proto'], jwire.dec(case['payload']))], 'replay')
    elif case.get('kind') == 'roundtrip':
        evaluate_roundtrips(ctx, res, [RT.from_case(case)], 'replay')
    elif case.get('kind') == 'history':
        evaluate_histories(ctx, res, [Hist.from_case(case)], 'replay')
    elif case.get('kind') == 'connhist':
        evaluate_conn_histories(ctx, res, [case['steps']], 'replay')
    res.sample(case)
    return res.finish('replay of one recorded case')
