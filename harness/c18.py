"""C18 correspondence + search: the real validators / NetAddress / Service of `aiorpcx.util` and
the real `re` engine vs the Lean model (`drv_c18`), and the property oracle (an independent
re-implementation of the property's grammar, no regexes) on every implementation result.

The driver does not depend on the generated facts, so everything here also runs when a proof
obligation over the facts no longer checks; in that case the fact-directed witness synthesis
(`witness_cases`: generated class minus spec class, anchor kind, match mode) is what usually
produces the concrete failing input first."""
import ipaddress
import itertools
import os
import random
import re
import sys
import unicodedata
from multiprocessing import Pool

from harness.base import Results, corpus_lines
from tools.facts.common import fresh_import
from tools.facts import c18 as facts_c18

NCP = 0x110000
LET = frozenset('abcdefghijklmnopqrstuvwxyzABCDEFGHIJKLMNOPQRSTUVWXYZ')
DIG = frozenset('0123456789')
PROTO_TAIL = LET | DIG | frozenset('+-.')
LABEL = LET | DIG | frozenset('-_')
ALPHABET = ['a', 'Z', '0', '-', '_', '.', '+', ',', '/', '\n', ' ', 'é', 'ſ', '٣']
ALPHABET2 = ['a', '1', '.', ':', '[', ']', '%', '/']

util = None


def init(repo):
    global util
    util = fresh_import(repo, 'aiorpcx.util')


# ---------------------------------------------------------------- encoding (driver protocol)
def enc(s):
    return '.'.join(format(ord(c), 'x') for c in s) if s else '-'


def dec(t):
    return '' if t == '-' else ''.join(chr(int(x, 16)) for x in t.split('.'))


class Other:
    """stands for 'a value of any other type' in recorded cases"""
    def __init__(self, v=None):
        self.v = v


def enc_val(v):
    if isinstance(v, bool):
        return 'b:1' if v else 'b:0'
    if isinstance(v, int):
        return f'i:{int(v)}'
    if isinstance(v, str):
        return 's:' + enc(v)
    if isinstance(v, ipaddress.IPv4Address):
        return '4:' + str(v)
    if isinstance(v, ipaddress.IPv6Address):
        return '6:' + enc(str(v))
    return 'o' if v else 'n'      # 'n': None / falsy object of another type; 'o': truthy one


def dec_val(t):
    if t == 'n':
        return None
    if t == 'o':
        return 1.5
    k, _, r = t.partition(':')
    if k == 's':
        return dec(r)
    if k == 'i':
        return int(r)
    if k == 'b':
        return r == '1'
    if k == '4':
        return ipaddress.IPv4Address(r)
    if k == '6':
        return ipaddress.IPv6Address(dec(r))
    raise ValueError(t)


def py_other(v):
    return v.v if isinstance(v, Other) else v


def fmt_host(h):
    if isinstance(h, ipaddress.IPv4Address):
        return '4:' + str(h)
    if isinstance(h, ipaddress.IPv6Address):
        return '6:' + enc(str(h))
    return 'N:' + enc(h)


def fmt_addr(a):
    return f'{fmt_host(a.host)}:{int(a.port)}'


def fmt_svc(s):
    return f'{enc(s.protocol)}//{fmt_addr(s.address)}'


# ---------------------------------------------------------------- the property oracle
def o_protocol(s):
    return len(s) >= 2 and s[0] in LET and all(c in PROTO_TAIL for c in s[1:])


def o_label(l):
    return 1 <= len(l) <= 63 and all(c in LABEL for c in l) and l[0] != '-' and l[-1] != '-'


def o_hostname(s):
    t = s[:-1] if s.endswith('.') else s
    if not 1 <= len(t) <= 253:
        return False
    labels = t.split('.')
    return all(o_label(l) for l in labels) and not all(c in DIG for c in labels[-1])


def o_decimal_value(s):
    """value of a non-empty string of Unicode decimal digits, else None"""
    if not s:
        return None
    v = 0
    for c in s:
        d = unicodedata.decimal(c, None)
        if d is None:
            return None
        v = v * 10 + d
    return v


def o_ip(s):
    try:
        return ipaddress.ip_address(s)
    except ValueError:
        return None


def expect_port(v, maxdigits):
    """-> ('ok', n) | ('ValueError',) | ('TypeError',) | ('ok?', n) (may be accepted as n or
    refused) | None (don't care)"""
    if isinstance(v, bool):       # an int subclass; the property does not say whether it counts
        return ('ok?', 1) if v else ('ValueError?',)
    if isinstance(v, int):
        return ('ok', int(v)) if 1 <= v <= 65535 else ('ValueError',)
    if isinstance(v, str):
        n = o_decimal_value(v)
        if n is None:
            return ('ValueError',)
        if maxdigits and len(v) > maxdigits:
            return None if 1 <= n <= 65535 else ('ValueError',)
        return ('ok', n) if 1 <= n <= 65535 else ('ValueError',)
    return ('TypeError',)


def classify_family(fn, s):
    """names the failing input family (violation keys are per family)"""
    if not isinstance(s, str):
        return 'non-string'
    if s.endswith('\n'):
        return 'trailing-newline'
    if any(ord(c) > 127 for c in s):
        return 'non-ascii'
    if fn == 'protocol' and any(c not in PROTO_TAIL for c in s):
        return 'extra-char'
    if fn == 'hostname' and any(c not in LABEL and c != '.' for c in s):
        return 'extra-char'
    return 'other'


# ---------------------------------------------------------------- IPv6 table for the model
def split_model(s):
    """mirror of the model's (repaired) _split_address - only used to know which strings the
    model will ask the IPv6 library about"""
    if s.startswith('['):
        end = s.rfind(']')
        if end != -1:
            if len(s) == end + 1:
                return s[1:end]
            if s[end + 1] == ':':
                return s[1:end]
    colon = s.find(':')
    return s if colon == -1 else s[:colon]


def host_candidates(s):
    out = {s, split_model(s)}
    if s.startswith('['):
        e = s.find(']')
        if e != -1:
            out.add(s[1:e])
    if '://' in s:
        out |= host_candidates(s.split('://', 1)[1])
    return out


def table_for(strings):
    tab = {}
    for s in strings:
        for c in host_candidates(s):
            if ':' in c:
                ip = o_ip(c)
                if isinstance(ip, ipaddress.IPv6Address):
                    tab[c] = str(ip)
                    tab[str(ip)] = str(ip)
    return tab


def fmt_table(tab):
    if not tab:
        return ''
    return ' | ' + ' '.join(f'{enc(k)}={enc(v)}' for k, v in sorted(tab.items()))


# ---------------------------------------------------------------- one case on the implementation
VT = (ValueError, TypeError)


class Case:
    __slots__ = ('op', 'args', 'line', 'impl', 'viol')

    def __init__(self, op, *args):
        self.op = op
        self.args = args
        self.line = None
        self.impl = None
        self.viol = None      # (key, why)

    def record(self):
        if self.op == 'rx':
            mode, rxenc, name, s = self.args
            return {'op': 'rx', 'args': [mode, rxenc, name, enc(s)],
                    'pattern': repr(RX_OBJECTS[name].pattern), 'flags': int(RX_OBJECTS[name].flags)}
        if self.op == 'svcd':
            return {'op': 'svcd', 'args': [enc_val(self.args[0])] + g_entries(self.args[1]),
                    'repr': [repr(self.args[0])[:120], repr(self.args[1])[:300]]}
        return {'op': self.op, 'args': [enc_val(py_other(a)) for a in self.args],
                'repr': [repr(py_other(a))[:120] for a in self.args]}


def exc_name(e):
    return type(e).__name__


PARTS = {'h': 1, 'p': 2, 'r': 0}     # ServicePart values


def g_entries(table):
    """table {(protocol or None, 'h'|'p'|'r'): value} -> driver tokens"""
    return [f"{'~' if k is None else enc(k)}/{part}={enc_val(v)}" for (k, part), v in sorted(
        table.items(), key=lambda kv: (kv[0][0] is not None, kv[0][0] or '', kv[0][1]))]


def g_decode(tokens):
    table = {}
    for t in tokens:
        left, val = t.split('=')
        k, part = left.split('/')
        table[(None if k == '~' else dec(k), part)] = dec_val(val)
    return table


def run_case(c, maxdigits):
    """fills c.line (driver input), c.impl (canonical implementation output), c.viol"""
    op = c.op
    a = [py_other(x) for x in c.args]
    try:
        if op == 'proto':
            v = a[0]
            c.line = 'proto ' + enc_val(v)
            try:
                r = util.validate_protocol(v)
                c.impl = 'ok ' + enc(r)
                if not isinstance(v, str) or not o_protocol(v):
                    c.viol = ('c18:protocol-accepts-invalid:' + classify_family('protocol', v),
                              f'validate_protocol({v!r}) accepted; not a letter followed by >=1 of letters/digits/+/-/.')
                elif r != v.lower():
                    c.viol = ('c18:protocol-wrong-value', f'validate_protocol({v!r}) returned {r!r}')
            except VT as e:
                c.impl = exc_name(e)
                want = 'ValueError' if isinstance(v, str) else 'TypeError'
                if isinstance(v, str) and o_protocol(v):
                    c.viol = ('c18:protocol-rejects-valid', f'validate_protocol({v!r}) raised {exc_name(e)}')
                elif exc_name(e) != want:
                    c.viol = ('c18:protocol-wrong-exception', f'validate_protocol({v!r}) raised {exc_name(e)}, expected {want}')
        elif op == 'host':
            v = a[0]
            c.line = 'host ' + enc_val(v)
            try:
                r = util.is_valid_hostname(v)
                c.impl = 'ok ' + ('True' if r else 'False')
                if not isinstance(v, str):
                    c.viol = ('c18:hostname-wrong-exception', f'is_valid_hostname({v!r}) returned instead of TypeError')
                elif bool(r) != o_hostname(v):
                    fam = classify_family('hostname', v)
                    key = ('c18:hostname-accepts-invalid:' + fam) if r else 'c18:hostname-rejects-valid'
                    c.viol = (key, f'is_valid_hostname({v!r}) = {r}, the grammar says {o_hostname(v)}')
            except VT as e:
                c.impl = exc_name(e)
                if isinstance(v, str) or exc_name(e) != 'TypeError':
                    c.viol = ('c18:hostname-wrong-exception', f'is_valid_hostname({v!r}) raised {exc_name(e)}')
        elif op == 'classify':
            v = a[0]
            tab = table_for([v]) if isinstance(v, str) else {}
            c.line = 'classify ' + enc_val(v) + fmt_table(tab)
            isip = isinstance(v, (ipaddress.IPv4Address, ipaddress.IPv6Address))
            try:
                r = util.classify_host(v)
                c.impl = 'ok ' + fmt_host(r)
                if isip:
                    if r != v:
                        c.viol = ('c18:classify-wrong-value', f'classify_host({v!r}) = {r!r}')
                elif not isinstance(v, str):
                    c.viol = ('c18:classify-wrong-exception', f'classify_host({v!r}) returned instead of TypeError')
                elif o_hostname(v):
                    if not (isinstance(r, str) and r == v):
                        c.viol = ('c18:classify-wrong-value', f'classify_host({v!r}) = {r!r}, expected the name')
                else:
                    ip = o_ip(v)
                    if ip is None:
                        c.viol = ('c18:classify-accepts-invalid:' + classify_family('hostname', v),
                                  f'classify_host({v!r}) = {r!r}: neither a valid host name nor an IP literal')
                    elif r != ip or type(r) is not type(ip):
                        c.viol = ('c18:classify-wrong-value', f'classify_host({v!r}) = {r!r}, expected {ip!r}')
            except VT as e:
                c.impl = exc_name(e)
                if isip:
                    c.viol = ('c18:classify-rejects-valid', f'classify_host({v!r}) raised {exc_name(e)}')
                elif not isinstance(v, str):
                    if exc_name(e) != 'TypeError':
                        c.viol = ('c18:classify-wrong-exception', f'classify_host({v!r}) raised {exc_name(e)}')
                elif o_hostname(v) or o_ip(v) is not None:
                    c.viol = ('c18:classify-rejects-valid', f'classify_host({v!r}) raised {exc_name(e)}')
                elif exc_name(e) != 'ValueError':
                    c.viol = ('c18:classify-wrong-exception', f'classify_host({v!r}) raised {exc_name(e)}')
        elif op == 'port':
            v = a[0]
            c.line = f'port {maxdigits} ' + enc_val(v)
            want = expect_port(v, maxdigits)
            try:
                r = util.validate_port(v)
                c.impl = f'ok {int(r)}'
                if want is not None and want[0] not in ('ok', 'ok?'):
                    c.viol = ('c18:port-accepts-invalid', f'validate_port({v!r}) = {r!r}, expected {want[0]}')
                elif want is not None and (not isinstance(r, int) or int(r) != want[1]):
                    c.viol = ('c18:port-wrong-value', f'validate_port({v!r}) = {r!r}, expected {want[1]}')
            except VT as e:
                c.impl = exc_name(e)
                if want is not None and want[0] == 'ok':
                    c.viol = ('c18:port-rejects-valid', f'validate_port({v!r}) raised {exc_name(e)}')
                elif want is not None and not want[0].endswith('?') and want[0] != exc_name(e):
                    c.viol = ('c18:port-wrong-exception', f'validate_port({v!r}) raised {exc_name(e)}, expected {want[0]}')
        elif op == 'split':
            s = a[0]
            c.line = 'split ' + enc(s)
            h, p = util._split_address(s)
            c.impl = enc(h) + ' ' + enc(p)
        elif op == 'ip4':
            s = a[0]
            c.line = 'ip4 ' + enc(s)
            ip = o_ip(s)
            c.impl = '4:' + str(ip) if isinstance(ip, ipaddress.IPv4Address) else '-'
        elif op == 'show4':
            ip = a[0]
            c.line = 'show4 ' + str(ip)
            c.impl = enc(str(ip))
        elif op == 'mkaddr':
            h, p = a
            strs = [h] if isinstance(h, str) else ([str(h)] if isinstance(h, ipaddress.IPv6Address) else [])
            c.line = f'mkaddr {enc_val(h)} {enc_val(p)}' + fmt_table(table_for(strs))
            try:
                obj = util.NetAddress(h, p)
            except VT as e:
                c.impl = exc_name(e)
                hv = isinstance(h, (ipaddress.IPv4Address, ipaddress.IPv6Address)) or \
                    (isinstance(h, str) and (o_hostname(h) or o_ip(h) is not None))
                pv = expect_port(p, maxdigits)
                if hv and pv is not None and pv[0] == 'ok':
                    c.viol = ('c18:netaddress-rejects-valid', f'NetAddress({h!r}, {p!r}) raised {exc_name(e)}')
                return
            c.impl, c.viol = roundtrip(obj, util.NetAddress, fmt_addr, 'netaddress', f'NetAddress({h!r}, {p!r})')
            why = addr_invalid(obj)
            if why and not c.viol:
                c.viol = ('c18:netaddress-accepts-invalid:' + why[0], f'NetAddress({h!r}, {p!r}) constructed: {why[1]}')
        elif op == 'addr':
            v = a[0]
            c.line = 'addr ' + enc_val(v) + fmt_table(table_for([v]) if isinstance(v, str) else {})
            try:
                obj = util.NetAddress.from_string(v)
                c.impl = 'ok ' + fmt_addr(obj)
                why = addr_invalid(obj)
                if why:
                    c.viol = ('c18:netaddress-accepts-invalid:' + why[0], f'NetAddress.from_string({v!r}): {why[1]}')
            except VT as e:
                c.impl = exc_name(e)
                if (exc_name(e) == 'TypeError') != (not isinstance(v, str)):
                    c.viol = ('c18:netaddress-wrong-exception', f'NetAddress.from_string({v!r}) raised {exc_name(e)}')
        elif op == 'svc':
            v = a[0]
            c.line = 'svc ' + enc_val(v) + fmt_table(table_for([v]) if isinstance(v, str) else {})
            try:
                obj = util.Service.from_string(v)
                c.impl = 'ok ' + fmt_svc(obj)
                why = svc_invalid(obj)
                if why:
                    c.viol = ('c18:service-accepts-invalid:' + why[0], f'Service.from_string({v!r}): {why[1]}')
            except VT as e:
                c.impl = exc_name(e)
                if (exc_name(e) == 'TypeError') != (not isinstance(v, str)):
                    c.viol = ('c18:service-wrong-exception', f'Service.from_string({v!r}) raised {exc_name(e)}')
        elif op == 'mksvc':
            p, ad = a
            c.line = f'mksvc {enc_val(p)} {enc_val(ad)}' + fmt_table(table_for([ad]) if isinstance(ad, str) else {})
            try:
                obj = util.Service(p, ad)
            except VT as e:
                c.impl = exc_name(e)
                return
            c.impl, c.viol = roundtrip(obj, util.Service, fmt_svc, 'service', f'Service({p!r}, {ad!r})')
            why = svc_invalid(obj)
            if why and not c.viol:
                c.viol = ('c18:service-accepts-invalid:' + why[0], f'Service({p!r}, {ad!r}) constructed: {why[1]}')
        elif op == 'addrd':
            v, dh, dp = a
            strs = [x for x in (v, dh) if isinstance(x, str)]
            c.line = f'addrd {enc_val(v)} {enc_val(dh)} {enc_val(dp)}' + fmt_table(table_for(strs))
            try:
                obj = util.NetAddress.from_string(v, default_func=util.NetAddress.default_host_and_port(dh, dp))
                c.impl = 'ok ' + fmt_addr(obj)
                why = addr_invalid(obj)
                if why:
                    c.viol = ('c18:netaddress-accepts-invalid:' + why[0],
                              f'NetAddress.from_string({v!r}, defaults {dh!r}, {dp!r}): {why[1]}')
            except VT as e:
                c.impl = exc_name(e)
        elif op == 'svcd':
            v, table = a
            rev = {1: 'h', 2: 'p', 0: 'r'}

            def g(protocol, part):
                return table.get((protocol, rev[int(part)]))
            strs = [v] + [x for x in table.values() if isinstance(x, str)]
            c.line = ' '.join(['svcd', enc_val(v)] + g_entries(table)) + fmt_table(table_for(strs))
            contract = table.get((None, 'r')) is None or isinstance(table.get((None, 'r')), str)
            try:
                obj = util.Service.from_string(v, default_func=g)
                c.impl = 'ok ' + fmt_svc(obj)
                why = svc_invalid(obj)
                if why:
                    c.viol = ('c18:service-accepts-invalid:' + why[0], f'Service.from_string({v!r}, default_func): {why[1]}')
            except VT as e:
                c.impl = exc_name(e)
            except AttributeError as e:
                c.impl = exc_name(e)
                if contract:    # the callback kept its contract, so this is the code's own failure
                    c.viol = ('c18:other-exception:svcd', f'Service.from_string({v!r}, default_func) raised AttributeError')
        elif op == 'rx':
            mode, rxenc, name, s = a
            c.line = f'rx {mode} {rxenc} {enc(s)}'
            pat = RX_OBJECTS[name]
            c.impl = '1' if getattr(pat, mode)(s) else '0'
        else:
            raise AssertionError(op)
    except VT:
        raise
    except Exception as e:      # anything but ValueError / TypeError escaping the code under test
        if op in ('rx', 'ip4', 'show4'):
            raise
        c.impl = exc_name(e)
        c.viol = ('c18:other-exception:' + op, f'{op}{tuple(a)!r} raised {exc_name(e)}: {e}')


def addr_invalid(obj):
    h, p = obj.host, obj.port
    if not (isinstance(p, int) and 1 <= p <= 65535):
        return ('port', f'port {p!r} is not an integer in 1..65535')
    if isinstance(h, (ipaddress.IPv4Address, ipaddress.IPv6Address)):
        return None
    if not (isinstance(h, str) and o_hostname(h)):
        return (classify_family('hostname', h), f'host {h!r} is neither a valid host name nor an IP address')
    return None


def svc_invalid(obj):
    if not (isinstance(obj.protocol, str) and o_protocol(obj.protocol) and obj.protocol == obj.protocol.lower()):
        return (classify_family('protocol', obj.protocol), f'protocol {obj.protocol!r} is not a valid lower-case protocol name')
    return addr_invalid(obj.address)


def roundtrip(obj, cls, fmt, what, how):
    """print, parse back, compare: -> (canonical output, violation or None)"""
    text = str(obj)
    viol = None
    h6 = obj.host if what == 'netaddress' else obj.address.host
    if isinstance(h6, ipaddress.IPv6Address) and not (':' in str(h6) and o_ip(str(h6)) == h6):
        viol = ('c18:iplib-law', f'ipaddress breaks an assumed law on {h6!r}')
    try:
        back = cls.from_string(text)
        rt = 'ok_' + fmt(back)
        eq = 1 if back == obj else 0
        if not eq:
            viol = (f'c18:{what}-roundtrip:not-equal', f'{how}: from_string({text!r}) = {back!r} != original')
    except VT as e:
        rt = exc_name(e)
        eq = 0
        port = obj.port
        fam = 'bool-port' if isinstance(port, bool) else \
            ('ipv6-scope-bracket' if isinstance(obj.host, ipaddress.IPv6Address) and ']' in str(obj.host) else 'other')
        viol = viol or (f'c18:{what}-roundtrip:{fam}', f'{how}: str() = {text!r} does not parse back ({exc_name(e)})')
    return f'ok {fmt(obj)} {enc(text)} rt={rt} eq={eq}', viol


# ---------------------------------------------------------------- evaluation
RX_OBJECTS = {}


def bool_port_refused(c):
    """The property speaks of integers and digit strings; whether `True`/`False` count as the
    integers 1/0 (as the code and the model have it) or are refused outright is not fixed by it, so
    a refusal of a bool port is not compared with the model."""
    if c.op == 'port':
        v = py_other(c.args[0])
    elif c.op == 'mkaddr':
        v = py_other(c.args[1])
    elif c.op == 'addrd':
        v = py_other(c.args[2])
    else:
        return False
    return isinstance(v, bool) and c.impl in ('TypeError', 'ValueError')


def evaluate(ctx, cases, res, tag):
    md = ctx.facts.get('max_str_digits', sys.get_int_max_str_digits())
    for c in cases:
        run_case(c, md)
    model = ctx.model([c.line for c in cases])
    for i, c in enumerate(cases):
        if c.viol:
            res.violation(c.viol[0], c.record(), c.viol[1], impl=c.impl, scope=tag)
        if model is not None and model[i] != c.impl and not bool_port_refused(c):
            res.disagreement(c.record(), c.impl, model[i], scope=tag, line=c.line[:300])
        res.count('op:' + c.op)
        if c.impl is not None and c.op not in ('split', 'show4', 'ip4', 'rx'):
            res.count(f'outcome:{c.op}:' + c.impl.split(' ')[0].split(':')[0])
        if c.impl and c.impl.startswith('ok') and c.op != 'split':
            res.nontrivial((c.op, c.line))
    res['evaluations'] += len(cases)
    res['scopes'][tag] = res['scopes'].get(tag, 0) + len(cases)


# ---------------------------------------------------------------- code-point sweeps
SWEEPS = {
    'host': [('', 'b.com'), ('a', 'b.com'), ('ab', '.com'), ('', '.com'), ('ex.', 'om'), ('ex.', ''),
             ('ex.com', ''), ('ex.com.', ''), ('', ''), ('ex.c', 'm\n')],
    'proto': [('', 'cp'), ('t', ''), ('t', 'p'), ('tc', ''), ('tcp', '')],
    'port': [('', ''), ('', '1'), ('1', ''), ('1', '1'), ('6553', '')],
    'classify': [('a', 'b.com'), ('ex.com', ''), ('1.2.3.', ''), ('', '.2.3.4'), ('1.2.3.4', ''),
                 ('::', ''), ('', '::1'), ('1', '')],
}
QUICK_SWEEPS = {'host': 10, 'proto': 5, 'port': 5, 'classify': 4}


def rle(outs, lo):
    parts = []
    start, cur = lo, outs[0]
    for i in range(1, len(outs)):
        if outs[i] != cur:
            parts.append(f'{start:x}-{lo + i - 1:x}={cur}')
            start, cur = lo + i, outs[i]
    parts.append(f'{start:x}-{lo + len(outs) - 1:x}={cur}')
    return ' '.join(parts)


def sweep_one(fn, pre, suf, lo, hi, md):
    """(driver line, impl rle, [(code point, key, why)], accepted count)"""
    outs, viols, tabstr = [], [], []
    acc = 0
    for cp in range(lo, hi + 1):
        s = pre + chr(cp) + suf
        try:
            if fn == 'host':
                r = util.is_valid_hostname(s)
                outs.append('ok_True' if r else 'ok_False')
                acc += bool(r)
                if bool(r) != o_hostname(s):
                    viols.append((cp, ('c18:hostname-accepts-invalid:' + classify_family('hostname', s)) if r
                                  else 'c18:hostname-rejects-valid', f'is_valid_hostname({s!r}) = {r}'))
            elif fn == 'proto':
                r = util.validate_protocol(s)
                outs.append('ok_' + enc(r))
                acc += 1
                if not o_protocol(s):
                    viols.append((cp, 'c18:protocol-accepts-invalid:' + classify_family('protocol', s),
                                  f'validate_protocol({s!r}) accepted'))
            elif fn == 'port':
                want = expect_port(s, md)
                r = util.validate_port(s)
                outs.append(f'ok_{int(r)}')
                acc += 1
                if want is not None and (want[0] != 'ok' or want[1] != r):
                    viols.append((cp, 'c18:port-accepts-invalid', f'validate_port({s!r}) = {r!r}'))
            else:
                r = util.classify_host(s)
                acc += 1
                if isinstance(r, str):
                    outs.append('N')
                    if not o_hostname(s) or r != s:
                        viols.append((cp, 'c18:classify-accepts-invalid:' + classify_family('hostname', s),
                                      f'classify_host({s!r}) = {r!r}'))
                else:
                    outs.append(fmt_host(r))
                    if isinstance(r, ipaddress.IPv6Address):
                        tabstr.append(s)
                    if o_hostname(s) or o_ip(s) != r:
                        viols.append((cp, 'c18:classify-wrong-value', f'classify_host({s!r}) = {r!r}'))
        except ValueError:
            outs.append('ValueError')
            bad = (fn == 'host') or (fn == 'proto' and o_protocol(s)) or \
                (fn == 'port' and (expect_port(s, md) or ('',))[0] == 'ok') or \
                (fn == 'classify' and (o_hostname(s) or o_ip(s) is not None))
            if bad:
                nm = {'host': 'hostname', 'proto': 'protocol'}.get(fn, fn)
                viols.append((cp, f'c18:{nm}-rejects-valid', f'{fn}({s!r}) raised ValueError'))
        except Exception as e:
            outs.append(exc_name(e))
            viols.append((cp, 'c18:other-exception:' + fn, f'{fn}({s!r}) raised {exc_name(e)}'))
    line = f'sweep {fn} {md} {enc(pre)} {enc(suf)} {lo:x} {hi:x}' + fmt_table(table_for(tabstr))
    return line, rle(outs, lo), viols[:20], acc


def _sweep_job(args):
    return sweep_one(*args)


def quick_segments(rng):
    """code points that some str / re / unicodedata operation could plausibly treat specially"""
    keep = set(range(0, 0x3400)) | set(range(0xD7F0, 0xE010)) | set(range(0xF900, 0x10000)) \
        | set(range(0x1D400, 0x1D800)) | set(range(0xE0000, 0xE0080)) | set(range(0x10FFF0, NCP))
    for cp in range(0x3400, NCP):
        ch = chr(cp)
        if ch.isdigit() or ch.isdecimal() or ch.isnumeric() or ch.isspace() or \
                (ch.lower() + ch.upper() + ch.casefold()).isascii():
            keep.update((cp - 1, cp, cp + 1))
    for _ in range(48):
        b = rng.randrange(0x3400, NCP - 64)
        keep.update(range(b, b + 64))
    return facts_c18.to_ranges(sorted(c for c in keep if 0 <= c < NCP))


def run_sweeps(ctx, res):
    md = ctx.facts.get('max_str_digits', sys.get_int_max_str_digits())
    segs = [[0, NCP - 1]] if ctx.deep else quick_segments(ctx.rng)
    jobs = []
    for fn, ctxs in SWEEPS.items():
        use = ctxs if ctx.deep else ctxs[:QUICK_SWEEPS[fn]]
        for pre, suf in use:
            if ctx.deep:
                step = 0x8000
                jobs += [(fn, pre, suf, lo, min(lo + step, NCP) - 1, md) for lo in range(0, NCP, step)]
            else:
                jobs += [(fn, pre, suf, lo, hi, md) for lo, hi in segs]
    if ctx.deep:
        with Pool(min(6, os.cpu_count() or 1), initializer=init, initargs=(ctx.repo,)) as pool:
            outs = pool.map(_sweep_job, jobs, chunksize=4)
    else:
        outs = [sweep_one(*j) for j in jobs]
    model = ctx.model([o[0] for o in outs])
    ncp = 0
    for i, (job, (line, impl, viols, acc)) in enumerate(zip(jobs, outs)):
        fn, pre, suf, lo, hi, _ = job
        ncp += hi - lo + 1
        res.count('sweep_accepted:' + fn, acc)
        for cp, key, why in viols:
            s = pre + chr(cp) + suf
            op = {'host': 'host', 'proto': 'proto', 'port': 'port', 'classify': 'classify'}[fn]
            res.violation(key, Case(op, s).record(), why, scope='sweep')
        if model is not None and model[i] != impl:
            res.disagreement({'op': 'sweep', 'fn': fn, 'prefix': pre, 'suffix': suf, 'lo': lo, 'hi': hi},
                             impl[:400], model[i][:400], scope='sweep')
    res['evaluations'] += ncp
    res['scopes']['sweep_strings'] = ncp
    res['scopes']['sweep_contexts'] = {fn: (len(c) if ctx.deep else QUICK_SWEEPS[fn]) for fn, c in SWEEPS.items()}
    res['scopes']['sweep_code_points_per_context'] = sum(h - l + 1 for l, h in segs)
    return ctx.deep


# ---------------------------------------------------------------- regex engine correspondence
def rx_encode(form, key='items'):
    def atom(a):
        if a[0] == 'cls':
            cls = ','.join(f'{lo:x}-{hi:x}' for lo, hi in form['classes'][a[1]])
            return f'c{a[2]},{"*" if a[3] is None else a[3]}:{cls}'
        if a[0] == 'bos':
            return '^'
        return '$' if a[1] == 'dollar' else 'Z'
    items = []
    for it in form[key]:
        if it[0] == 'opt':
            items.append('?(' + '&'.join(atom(x) for x in it[1]) + ')')
        else:
            items.append(atom(it))
    return ';'.join(items) if items else '-'


def fast_class(node, flags):
    """effective class by one findall over all code points (used for the random regexes only)"""
    key = ('fast', repr(node), int(flags))
    cache = facts_c18._probe_cache
    if key not in cache:
        from re import _parser, _compiler
        st = _parser.State()
        st.flags = flags
        st.str = ''
        pat = _compiler.compile(_parser.SubPattern(st, [node]), flags)
        global _ALLSTR
        try:
            allstr = _ALLSTR
        except NameError:
            allstr = _ALLSTR = ''.join(map(chr, range(NCP)))
        cache[key] = facts_c18.to_ranges([ord(x) for x in pat.findall(allstr)])
    return cache[key]


def random_regex(rng):
    classes = ['[a-z]', '[0-9]', 'a', '[^a]', '[a-z0-9-]', 'k', '[+-.]', r'\n']
    quants = ['', '', '+', '*', '?', '{0,2}', '{1,3}', '{2}', '+?', '*?']
    def atoms(n):
        return ''.join(rng.choice(classes) + rng.choice(quants) for _ in range(n))
    pat = ''
    if rng.random() < 0.4:
        pat += '^'
    pat += atoms(rng.randint(1, 2))
    if rng.random() < 0.5:
        pat += '(' + atoms(rng.randint(1, 2)) + ')?'
    if rng.random() < 0.3:
        pat += rng.choice(['$', r'\Z']) + atoms(1)
    if rng.random() < 0.8:
        pat += rng.choice(['$', r'\Z'])
    flags = rng.choice([0, 0, re.IGNORECASE, re.IGNORECASE | re.ASCII])
    return pat, flags


def regex_cases(ctx, res, rng):
    cases = []
    f = ctx.facts
    strings = [''.join(t) for n in range(0, 4) for t in itertools.product(ALPHABET, repeat=n)]
    for role in ('protocol', 'label', 'numeric'):
        form = f.get(role, {})
        if 'unsupported' in form or 'items' not in form:
            res.count('regex_outside_fragment')
            continue
        name = form['name']
        RX_OBJECTS[name] = getattr(util, name)
        raw = rx_encode(form, 'raw_items')      # as parsed: must agree under every mode
        norm = rx_encode(form)                  # normalised for the mode actually used
        extra = ['a' * 62, 'a' * 63, 'a' * 64, 'a' * 63 + '\n', 'tcp\n', 't,p', '1\n', '\n', 'a\n\n']
        for s in strings + extra:
            for mode in ('match', 'fullmatch', 'search'):
                cases.append(Case('rx', mode, raw, name, s))
            cases.append(Case('rx', form['mode'], norm, name, s))
    # random linear regexes: validates the regex semantics of the model and the extractor in general
    real_probe = facts_c18.effective_class
    facts_c18.effective_class = fast_class
    try:
        n = 400 if ctx.deep else 60
        pool = ['a', 'b', 'k', 'K', '0', '-', ',', '\n', 'K', 'ſ']
        made = 0
        tries = 0
        while made < n and tries < 20 * n:
            tries += 1
            pat, flags = random_regex(rng)
            form = facts_c18.linear_form(pat, flags)
            if 'unsupported' in form:
                continue
            made += 1
            name = f'rnd{made}'
            RX_OBJECTS[name] = re.compile(pat, flags)
            encd = rx_encode(form)
            for _ in range(40):
                s = ''.join(rng.choice(pool) for _ in range(rng.randint(0, 5)))
                cases.append(Case('rx', rng.choice(('match', 'fullmatch', 'search')), encd, name, s))
        res['scopes']['random_linear_regexes'] = made
    finally:
        facts_c18.effective_class = real_probe
    return cases


# ---------------------------------------------------------------- fact-directed witness synthesis
def cls_set(ranges, limit=64):
    out = []
    for lo, hi in ranges:
        for cp in range(lo, hi + 1):
            out.append(cp)
            if len(out) > 4096:
                return out
    return out


def witness_cases(facts):
    """strings built from 'generated class minus spec class' (and spec minus generated), the
    anchor kinds and the match modes found in the facts"""
    spec = {
        'protocol': [LET, PROTO_TAIL],
        'label': [LET | DIG | {'_'}, LABEL, LET | DIG | {'_'}],
        'numeric': [DIG],
    }
    place = {
        ('protocol', 0): lambda ch: [('proto', ch + 'cp')],
        ('protocol', 1): lambda ch: [('proto', 't' + ch + 'p'), ('proto', 'tc' + ch)],
        ('label', 0): lambda ch: [('host', ch + 'b.com'), ('classify', ch + '.com')],
        ('label', 1): lambda ch: [('host', 'a' + ch + 'b.com')],
        ('label', 2): lambda ch: [('host', 'a' + ch + '.com'), ('host', 'ex.c' + ch)],
        ('numeric', 0): lambda ch: [('host', 'ex.' + ch), ('host', 'ex.1' + ch)],
    }
    out = []
    for role in ('protocol', 'label', 'numeric'):
        form = facts.get(role, {})
        if 'items' not in form:
            continue
        ci = 0
        atoms = []
        for it in form['items']:
            atoms += it[1] if it[0] == 'opt' else [it]
        for a in atoms:
            if a[0] != 'cls':
                continue
            got = set(map(chr, cls_set(form['classes'][a[1]])))
            want = spec[role][ci] if ci < len(spec[role]) else set()
            for ch in sorted(got - want)[:40] + sorted(want - got)[:40]:
                for op, s in place.get((role, ci), lambda ch: [])(ch):
                    out.append(Case(op, s))
            ci += 1
        ends = [a[1] for a in atoms if a[0] == 'eos']
        exemplar = {'protocol': [('proto', 'tcp')], 'label': [('host', 'example.com'), ('classify', 'example.com')],
                    'numeric': [('host', 'example.1')]}[role]
        for op, s in exemplar:
            if 'dollar' in ends or not ends:
                out.append(Case(op, s + '\n'))
            if not ends:
                out += [Case(op, s + '!'), Case(op, s + ' x')]
            if form.get('mode') == 'search':
                out += [Case(op, '!' + s), Case(op, '1' + s)]
            if not any(a[0] == 'bos' for a in atoms) and form.get('mode') == 'search':
                out.append(Case(op, '\n' + s))
    return out


# ---------------------------------------------------------------- generators
def gen_label(rng, n=None):
    n = n or rng.choice([1, 1, 2, 3, 5, 8, 62, 63])
    edge = 'abcxyzABZ019_'
    mid = edge + '--'
    if n == 1:
        return rng.choice(edge)
    return rng.choice(edge) + ''.join(rng.choice(mid) for _ in range(n - 2)) + rng.choice(edge)


def gen_hostname(rng):
    labels = [gen_label(rng) for _ in range(rng.randint(1, 5))]
    if all(c in DIG for c in labels[-1]):
        labels[-1] = 'x' + labels[-1][1:]
    h = '.'.join(labels)
    if len(h) > 253:
        h = h[:253].rstrip('-.')
        if not o_hostname(h):
            h = 'example.com'
    if rng.random() < 0.2:
        h += '.'
    return h


def gen_ipv6_text(rng):
    groups = [format(rng.choice([0, 0, 0, 1, 0xffff, rng.randrange(0x10000)]), 'x') for _ in range(8)]
    s = ':'.join(groups)
    r = rng.random()
    if r < 0.2:
        s = rng.choice(['::', '::1', 'fe80::1', '2001:db8::', '::ffff:1.2.3.4', '1::'])
    elif r < 0.35:
        s = ':'.join(groups[:6]) + ':' + '.'.join(str(rng.randrange(256)) for _ in range(4))
    if rng.random() < 0.3:
        s += '%' + rng.choice([''.join(rng.choice('eth0]:[/ \n-') for _ in range(rng.randint(1, 4))), '://', ']:80', 'eth0'])
    return s


def gen_host_value(rng):
    r = rng.random()
    if r < 0.4:
        return gen_hostname(rng)
    if r < 0.6:
        t = '.'.join(str(rng.choice([0, 1, 9, 10, 99, 100, 255, rng.randrange(256)])) for _ in range(4))
        return t if rng.random() < 0.5 else ipaddress.IPv4Address(t)
    t = gen_ipv6_text(rng)
    ip = o_ip(t)
    if ip is None:
        return t
    return t if rng.random() < 0.5 else ip


def gen_port_value(rng):
    n = rng.choice([1, 2, 80, 443, 8080, 65534, 65535, rng.randrange(1, 65536), 0, 65536, -1])
    r = rng.random()
    if r < 0.45:
        return n
    if r < 0.8:
        return str(n)
    if r < 0.85:
        return '0' * rng.randint(1, 3) + str(n)
    if r < 0.9:
        return ''.join(chr(0x660 + int(d)) if d.isdigit() else d for d in str(n))
    return rng.choice([True, False, None, 1.0, b'80', '', ' 80', '80 ', '+80', '8_0', '²'])


def gen_protocol(rng):
    first = rng.choice('abctzABZ')
    return first + ''.join(rng.choice('abcxyzABZ019+-.') for _ in range(rng.randint(1, 8)))


def mutate(rng, s):
    extra = ALPHABET + [':', '[', ']', '%', '/', '://', '1', '65536']
    for _ in range(rng.randint(1, 2)):
        i = rng.randint(0, len(s))
        r = rng.random()
        if r < 0.4:
            s = s[:i] + rng.choice(extra) + s[i:]
        elif r < 0.7 and s:
            s = s[:i] + s[i + 1:]
        else:
            s = s[:i] + rng.choice(extra) + s[i + 1:]
    return s


def generated_cases(rng, n):
    out = []
    for _ in range(n):
        h, p = gen_host_value(rng), gen_port_value(rng)
        out.append(Case('mkaddr', h, Other(p) if not isinstance(p, (int, str)) else p))
        hs = str(h)
        text = f'[{hs}]:{p}' if ':' in hs else f'{hs}:{p}'
        if isinstance(p, (int, str)) and not isinstance(p, bool):
            out.append(Case('addr', text))
            out.append(Case('addr', mutate(rng, text)))
            out.append(Case('split', mutate(rng, text)))
        proto = gen_protocol(rng)
        out.append(Case('mksvc', proto, text))
        out.append(Case('svc', f'{proto}://{text}'))
        out.append(Case('svc', mutate(rng, f'{proto}://{text}')))
        out.append(Case('proto', mutate(rng, proto)))
        if isinstance(h, str):
            out.append(Case('classify', mutate(rng, h)))
            out.append(Case('host', mutate(rng, h)))
    return out


def default_cases(rng, n):
    out = []
    hosts = ['example.com', '', None, 'h.x', '1.2.3.4', '::1', 5, 1.5, 'bad host', 'ex.com\n']
    ports = [80, '8080', None, 0, '', 65536, '65535', True, 1.5, 'x']
    protos = ['tcp', 'SSL', None, '', 5, 1.5, 't,p', 'ws']
    for _ in range(n):
        h = rng.choice(['example.com', 'a.b', '1.2.3.4', '[::1]', '::1', '', '', 'x y', gen_hostname(rng)])
        p = rng.choice(['80', '', '', '65536', '0', '8080', 'x'])
        text = rng.choice([h, f'{h}:{p}', f'{h}:{p}', f':{p}', f'[{h}]', mutate(rng, f'{h}:{p}')])
        if not text.isascii():
            text = 'example.com'
        out.append(Case('addrd', text, Other(rng.choice(hosts)), Other(rng.choice(ports))))
        proto = rng.choice(['tcp', 'SSL', 'ws', 't+x', 'Tcp', 'bad proto', ''])
        stext = rng.choice([f'{proto}://{text}', f'{proto}://{text}', proto, text, f'{proto}://', mutate(rng, f'{proto}://{text}')])
        if not stext.isascii():
            stext = 'tcp://example.com'
        table = {(None, 'r'): rng.choice(protos)}
        keys = {proto, proto.lower(), stext, stext.lower(), stext.split('://', 1)[0], stext.split('://', 1)[0].lower()}
        d = table[(None, 'r')]
        if isinstance(d, str):
            keys |= {d, d.lower()}
        for k in keys:
            if rng.random() < 0.7:
                table[(k, 'h')] = rng.choice(hosts)
            if rng.random() < 0.7:
                table[(k, 'p')] = rng.choice([x for x in ports if not isinstance(x, bool)])
        out.append(Case('svcd', stext, table))
    return out


def length_cases():
    out = []
    for n in (61, 62, 63, 64, 65):
        for l in ('a' * n, 'a' * (n - 1) + '-', '-' + 'a' * (n - 1), 'a' + '-' * (n - 2) + 'a', '1' * n):
            for s in (l, l + '.com', 'x.' + l, l + '.', 'x.' + l + '.'):
                out += [Case('host', s), Case('classify', s)]
    for total in (251, 252, 253, 254, 255, 256):
        # labels of 63 joined by dots, trimmed to the exact total
        base = '.'.join(['a' * 63] * 4)
        s = base[:total] if total <= len(base) else base + 'b' * (total - len(base))
        for t in (s, s + '.', s + '..', s[:-1] + '1', 'b' + s[1:]):
            if not t.endswith('..') and t.rstrip('.').endswith('.'):
                continue
            out += [Case('host', t), Case('classify', t)]
    for n in (1, 2, 3, 4, 5, 6, 4299, 4300, 4301, 5000):
        out += [Case('port', '0' * (n - 1) + '7'), Case('port', '9' * n)]
    for n in (1, 2, 62, 63, 64, 300):
        out += [Case('proto', 'a' * n), Case('proto', 'a' + '+' * n)]
    return out


def type_cases():
    vals = [None, 5, 0, True, False, 1.5, b'tcp', b'80', [], (), {}, ipaddress.IPv4Address('1.2.3.4'),
            ipaddress.IPv6Address('::1'), ipaddress.IPv6Address('fe80::1%eth0'), 10 ** 30, -10 ** 30,
            10 ** 4000, 65535, 65536]
    out = []
    for v in vals:
        w = v if isinstance(v, (int, str, ipaddress.IPv4Address, ipaddress.IPv6Address)) else Other(v)
        for op in ('proto', 'host', 'classify', 'port', 'addr', 'svc'):
            out.append(Case(op, w))
        out.append(Case('mkaddr', w, 80))
        out.append(Case('mkaddr', 'example.com', w))
        out.append(Case('mksvc', w, 'example.com:80'))
        out.append(Case('mksvc', 'tcp', w))
    return out


def int_cases(lo, hi):
    out = []
    fw = {str(d): chr(0xFF10 + d) for d in range(10)}
    ar = {str(d): chr(0x663 - 3 + d) for d in range(10)}
    for n in range(lo, hi + 1):
        t = str(n)
        out.append(Case('port', n))
        out.append(Case('port', t))
        out.append(Case('port', '0' + t))
        if n >= 0:
            out.append(Case('port', ''.join(fw[d] for d in t)))
            out.append(Case('port', t[:-1] + ar[t[-1]]))
    return out


def ip4_cases(rng, n):
    out = []
    octs = ['0', '1', '9', '10', '99', '100', '255', '256', '00', '01', '001', '1000', '', ' 1', '1 ', '-1', '+1',
            '١', '１', '1e1', '0x1']
    for _ in range(n):
        k = rng.choice([4, 4, 4, 3, 5])
        s = '.'.join(rng.choice(octs) for _ in range(k))
        out.append(Case('ip4', s))
        out.append(Case('classify', s))
    for _ in range(n // 4):
        out.append(Case('show4', ipaddress.IPv4Address(rng.choice([0, 1, 0xFFFFFFFF, rng.randrange(1 << 32)]))))
    return out


def corpus_cases(verif):
    out = []
    for line in corpus_lines(verif, 'C18'):
        toks = line.split()
        out.append(Case(toks[0], *[Other(dec_val(t)) if t in ('o', 'n') else dec_val(t) for t in toks[1:]]))
    return out


RULE = ('case = one call of validate_protocol / is_valid_hostname / classify_host / validate_port / '
        '_split_address / NetAddress(..)+str+from_string / Service(..)+str+from_string / '
        'NetAddress.from_string / Service.from_string / compiled-regex application, compared with the '
        'Lean model and judged by the grammar oracle; exhaustive scopes: every code point (thorough; a '
        'decision-relevant subset in quick) in each position context, all strings over the 14-symbol '
        'critical alphabet, all strings over {a 1 . : [ ] % /} for the address splitter, all ints '
        '-2..65537 with five string renderings; non-trivial = the implementation accepted the input '
        '(returned a value); distinct = distinct driver input lines')


def run(ctx):
    init(ctx.repo)
    res = Results()
    rng = ctx.rng
    # (a) corpus of past failures, then the fact-directed witnesses
    evaluate(ctx, corpus_cases(ctx.verif), res, 'corpus')
    evaluate(ctx, witness_cases(ctx.facts), res, 'fact_directed_witnesses')
    evaluate(ctx, type_cases(), res, 'argument_types')
    impl_only_checks(res)
    evaluate(ctx, length_cases(), res, 'lengths_62_65_252_255')
    # (b) the model's regex semantics and the extracted normal forms vs the real engine
    evaluate(ctx, regex_cases(ctx, res, rng), res, 'regex_engine')
    # (c) exhaustive: critical alphabet
    maxlen = 5 if ctx.deep and not res.failed else 4
    done = 0
    for n in range(0, maxlen + 1):
        if res.failed and n > 3:
            break
        cs = []
        for t in itertools.product(ALPHABET, repeat=n):
            s = ''.join(t)
            cs += [Case('proto', s), Case('host', s), Case('classify', s), Case('port', s)]
        evaluate(ctx, cs, res, 'alphabet14')
        done = n
    res['scopes']['alphabet14_max_len'] = done
    maxlen2 = 6 if ctx.deep and not res.failed else 5
    done2 = 0
    for n in range(0, maxlen2 + 1):
        if res.failed and n > 4:
            break
        cs = []
        for t in itertools.product(ALPHABET2, repeat=n):
            s = ''.join(t)
            cs += [Case('split', s), Case('addr', s)]
            if n <= 4:
                cs.append(Case('svc', 't+://' + s))
        evaluate(ctx, cs, res, 'alphabet_addr8')
        done2 = n
    res['scopes']['alphabet_addr8_max_len'] = done2
    # (d) exhaustive: integers and their renderings
    evaluate(ctx, int_cases(-2, 65537), res, 'ints_-2_65537')
    evaluate(ctx, ip4_cases(rng, 4000 if ctx.deep else 800), res, 'ipv4_concrete')
    # (e) generated objects, strings from and near the grammar
    evaluate(ctx, generated_cases(rng, 20000 if ctx.deep and not res.failed else 1500), res, 'generated')
    evaluate(ctx, default_cases(rng, 12000 if ctx.deep and not res.failed else 1500), res, 'default_func')
    # (f) every code point in every position context
    full = False
    if not res.failed or not ctx.deep:
        full = run_sweeps(ctx, res)
    for c in generated_cases(random.Random(ctx.seed + 1), 2)[:4]:
        run_case(c, 4300)
        res.sample({'line': c.line[:200], 'impl': c.impl[:200]})
    # report the shortest failing input first
    res['violations'].sort(key=lambda v: (sum(len(a) for a in v['case'].get('args', [])), v['key']))
    res['disagreements'].sort(key=lambda d: len(d.get('line', '')) or 10 ** 6)
    return res.finish(RULE, exhaustive={'alphabet14_len': done, 'alphabet_addr8_len': done2,
                                        'ints': '-2..65537', 'all_code_points': full})


def impl_only_checks(res):
    """inputs that cannot be put on the driver's line protocol (integers beyond the int->str digit
    limit, megabyte strings): only the exception-type clause of the property is checked"""
    probes = [('validate_port', util.validate_port, 10 ** 5000), ('validate_port', util.validate_port, -10 ** 5000),
              ('validate_port', util.validate_port, '9' * 100000),
              ('is_valid_hostname', util.is_valid_hostname, 'a.' * 500000),
              ('classify_host', util.classify_host, 'a' * 1000000),
              ('classify_host', util.classify_host, '\ud800.com'),
              ('validate_protocol', util.validate_protocol, 'a' + '+' * 1000000 + '\n'),
              ('NetAddress.from_string', util.NetAddress.from_string, '[' * 100000),
              ('Service.from_string', util.Service.from_string, '://' * 100000)]
    for name, fn, arg in probes:
        try:
            r = fn(arg)
            if name == 'is_valid_hostname' and r is False:
                continue
            res.violation('c18:accepts-invalid:huge', {'op': name, 'args': ['<huge>']},
                          f'{name}(<huge input>) returned {str(r)[:40]!r}')
        except VT:
            pass
        except Exception as e:
            res.violation('c18:other-exception:' + name, {'op': name, 'args': ['<huge>']},
                          f'{name}(<huge input>) raised {exc_name(e)}')
        res.count('impl_only_probes')
    res['evaluations'] += len(probes)


def replay(ctx, case):
    init(ctx.repo)
    if 'case' in case and isinstance(case['case'], dict):
        case = case['case']
    res = Results()
    args = []
    for i, t in enumerate(case['args']):
        if case['op'] == 'rx':
            args.append(dec(t) if i == 3 else t)
        else:
            v = dec_val(t)
            args.append(Other(v) if t in ('o', 'n') else v)
    if case['op'] == 'svcd':
        args = [dec_val(case['args'][0]), g_decode(case['args'][1:])]
    if case['op'] == 'rx':
        name = args[2]
        RX_OBJECTS[name] = getattr(util, name, None) or re.compile(eval(case['pattern']), case['flags'])
    evaluate(ctx, [Case(case['op'], *args)], res, 'replay')
    res.sample(case)
    return res.finish('replay of one recorded case')
