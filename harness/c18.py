"""C18 correspondence + search: the real validators / NetAddress / Service of `aiorpcx.util` and
the real `re` engine vs the Lean model (`drv_c18`), and the property oracle (an independent
re-implementation of the property's grammar, no regexes) on every implementation result.

The oracle judges exactly what the property text says - which strings / integers are accepted,
that a string that is neither a host name nor an IP literal is refused with ValueError, that
printing and parsing gives an equal object, that nothing but ValueError / TypeError escapes - and
nothing else: which of the two exceptions a refusal uses, the lower-casing of the returned
protocol, whether non-ASCII decimal digits count as a port are compared with the MODEL only (a
difference there is a disagreement, not a property failure).

The driver does not depend on the generated facts, so everything here also runs when a proof
obligation over the facts no longer checks.  The position tables of the facts (the real function
on every code point in every context) are judged by the oracle here, so a class that is too wide
or too narrow yields the concrete failing string."""
import ipaddress
import itertools
import os
import random
import re
import sys
import unicodedata
from concurrent.futures import ThreadPoolExecutor

from harness.base import Results, corpus_lines
from tools.facts.common import fresh_import
from tools.facts import c18 as facts_c18

NCP = 0x110000
LET = frozenset('abcdefghijklmnopqrstuvwxyzABCDEFGHIJKLMNOPQRSTUVWXYZ')
DIG = frozenset('0123456789')
PROTO_TAIL = LET | DIG | frozenset('+-.')
LABEL = LET | DIG | frozenset('-_')
ALPHABET = ['a', 'Z', '0', '-', '_', '.', '+', ',', '/', '\n', ' ', 'é', 'ſ', '٣', '\u212a']
ALPHABET2 = ['a', '1', '.', ':', '[', ']', '%', '/']

util = None
_POOL = ThreadPoolExecutor(max_workers=3)      # driver processes answering concurrently


def init(repo):
    global util
    util = fresh_import(repo, 'aiorpcx.util')


# ---------------------------------------------------------------- encoding (driver protocol)
def enc(s):
    return '.'.join(format(ord(c), 'x') for c in s) if s else '-'


def dec(t):
    return '' if t == '-' else ''.join(chr(int(x, 16)) for x in t.split('.'))


class Other:
    """stands for 'a value of any other type' in recorded cases"""
    def __init__(self, v=None):
        self.v = v


def enc_val(v):
    if isinstance(v, bool):
        return 'b:1' if v else 'b:0'
    if isinstance(v, int):
        return f'i:{int(v)}'
    if isinstance(v, str):
        return 's:' + enc(v)
    if isinstance(v, ipaddress.IPv4Address):
        return '4:' + str(v)
    if isinstance(v, ipaddress.IPv6Address):
        return '6:' + enc(str(v))
    return 'o' if v else 'n'      # 'n': None / falsy object of another type; 'o': truthy one


def dec_val(t):
    if t == 'n':
        return None
    if t == 'o':
        return 1.5
    k, _, r = t.partition(':')
    if k == 's':
        return dec(r)
    if k == 'i':
        return int(r)
    if k == 'b':
        return r == '1'
    if k == '4':
        return ipaddress.IPv4Address(r)
    if k == '6':
        return ipaddress.IPv6Address(dec(r))
    raise ValueError(t)


def py_other(v):
    return v.v if isinstance(v, Other) else v


def fmt_host(h):
    if isinstance(h, ipaddress.IPv4Address):
        return '4:' + str(h)
    if isinstance(h, ipaddress.IPv6Address):
        return '6:' + enc(str(h))
    return 'N:' + enc(h)


def fmt_addr(a):
    return f'{fmt_host(a.host)}:{int(a.port)}'


def fmt_svc(s):
    return f'{enc(s.protocol)}//{fmt_addr(s.address)}'


# ---------------------------------------------------------------- the property oracle
def o_protocol(s):
    return len(s) >= 2 and s[0] in LET and all(c in PROTO_TAIL for c in s[1:])


def o_label(l):
    return 1 <= len(l) <= 63 and all(c in LABEL for c in l) and l[0] != '-' and l[-1] != '-'


def o_hostname(s):
    t = s[:-1] if s.endswith('.') else s
    if not 1 <= len(t) <= 253:
        return False
    labels = t.split('.')
    return all(o_label(l) for l in labels) and not all(c in DIG for c in labels[-1])


def o_decimal_value(s):
    """value of a non-empty string of Unicode decimal digits, else None"""
    if not s:
        return None
    v = 0
    for c in s:
        d = unicodedata.decimal(c, None)
        if d is None:
            return None
        v = v * 10 + d
    return v


def o_ip(s):
    try:
        return ipaddress.ip_address(s)
    except ValueError:
        return None


def expect_port(v, maxdigits):
    """what the property text fixes about `validate_port(v)`:
    ('ok', n)   must be accepted and n returned     (integers and ASCII digit strings in 1..65535)
    ('ok?', n)  may be accepted as n or refused     (True; strings of non-ASCII decimal digits -
                                                     the text does not say whether those are digits)
    ('refuse',) must be refused (ValueError or TypeError, the text does not say which)
    None        don't care (beyond the interpreter's int-string digit limit)"""
    if isinstance(v, bool):       # an int subclass; the property does not say whether it counts
        return ('ok?', 1) if v else ('refuse',)
    if isinstance(v, int):
        return ('ok', int(v)) if 1 <= v <= 65535 else ('refuse',)
    if isinstance(v, str):
        n = o_decimal_value(v)
        if n is None or not 1 <= n <= 65535:
            return ('refuse',)
        if maxdigits and len(v) > maxdigits:
            return None
        return ('ok', n) if all(c in DIG for c in v) else ('ok?', n)
    return ('refuse',)


def classify_family(fn, s):
    """names the failing input family (violation keys are per family)"""
    if not isinstance(s, str):
        return 'non-string'
    if s.endswith('\n'):
        return 'trailing-newline'
    if any(ord(c) > 127 for c in s):
        return 'non-ascii'
    if fn == 'protocol' and any(c not in PROTO_TAIL for c in s):
        return 'extra-char'
    if fn == 'hostname' and any(c not in LABEL and c != '.' for c in s):
        return 'extra-char'
    return 'other'


# ---------------------------------------------------------------- IPv6 table for the model
def split_model(s):
    """mirror of the model's (repaired) _split_address - only used to know which strings the
    model will ask the IPv6 library about"""
    if s.startswith('['):
        end = s.rfind(']')
        if end != -1:
            if len(s) == end + 1:
                return s[1:end]
            if s[end + 1] == ':':
                return s[1:end]
    colon = s.find(':')
    return s if colon == -1 else s[:colon]


def host_candidates(s):
    out = {s, split_model(s)}
    if s.startswith('['):
        e = s.find(']')
        if e != -1:
            out.add(s[1:e])
    if '://' in s:
        out |= host_candidates(s.split('://', 1)[1])
    return out


def table_for(strings):
    tab = {}
    for s in strings:
        for c in host_candidates(s):
            if ':' in c:
                ip = o_ip(c)
                if isinstance(ip, ipaddress.IPv6Address):
                    tab[c] = str(ip)
                    tab[str(ip)] = str(ip)
    return tab


def fmt_table(tab, lowers=()):
    """` | ` + the graph of the IPv6 library on the strings concerned + the graph of the real
    `str.lower` (tokens `L:<s>=<s.lower()>`) on the non-ASCII ones the model will lower-case"""
    toks = [f'{enc(k)}={enc(v)}' for k, v in sorted(tab.items())]
    toks += [f'L:{enc(x)}={enc(x.lower())}' for x in sorted(set(lowers)) if not x.isascii()]
    return ' | ' + ' '.join(toks) if toks else ''


# ---------------------------------------------------------------- one case on the implementation
VT = (ValueError, TypeError)


class Case:
    __slots__ = ('op', 'args', 'line', 'impl', 'viol', 'nocompare')

    def __init__(self, op, *args):
        self.op = op
        self.args = args
        self.line = None
        self.impl = None
        self.viol = None      # (key, why)
        self.nocompare = False   # outside the quantifier / a callback contract: measured, not compared

    def record(self):
        if self.op == 'rx':
            mode, rxenc, name, s = self.args
            return {'op': 'rx', 'args': [mode, rxenc, name, enc(s)],
                    'pattern': repr(RX_OBJECTS[name].pattern), 'flags': int(RX_OBJECTS[name].flags)}
        if self.op == 'svcd':
            return {'op': 'svcd', 'args': [enc_val(self.args[0])] + g_entries(self.args[1]),
                    'repr': [repr(self.args[0])[:120], repr(self.args[1])[:300]]}
        return {'op': self.op, 'args': [enc_val(py_other(a)) for a in self.args],
                'repr': [repr(py_other(a))[:120] for a in self.args]}


def exc_name(e):
    return type(e).__name__


PARTS = {'h': 1, 'p': 2, 'r': 0}     # ServicePart values


def g_entries(table):
    """table {(protocol or None, 'h'|'p'|'r'): value} -> driver tokens"""
    return [f"{'~' if k is None else enc(k)}/{part}={enc_val(v)}" for (k, part), v in sorted(
        table.items(), key=lambda kv: (kv[0][0] is not None, kv[0][0] or '', kv[0][1]))]


def g_decode(tokens):
    table = {}
    for t in tokens:
        left, val = t.split('=')
        k, part = left.split('/')
        table[(None if k == '~' else dec(k), part)] = dec_val(val)
    return table


def run_case(c, maxdigits):
    """fills c.line (driver input), c.impl (canonical implementation output), c.viol"""
    op = c.op
    a = [py_other(x) for x in c.args]
    try:
        if op == 'proto':
            v = a[0]
            c.line = 'proto ' + enc_val(v)
            try:
                r = util.validate_protocol(v)
                c.impl = 'ok ' + (enc(r) if isinstance(r, str) else '?' + type(r).__name__)
                if not isinstance(v, str) or not o_protocol(v):
                    c.viol = ('c18:protocol-accepts-invalid:' + classify_family('protocol', v),
                              f'validate_protocol({v!r}) accepted; not a letter followed by >=1 of letters/digits/+/-/.')
            except VT as e:
                c.impl = exc_name(e)
                if isinstance(v, str) and o_protocol(v):
                    c.viol = ('c18:protocol-rejects-valid', f'validate_protocol({v!r}) raised {exc_name(e)}')
        elif op == 'host':
            v = a[0]
            c.line = 'host ' + enc_val(v)
            try:
                r = util.is_valid_hostname(v)
                c.impl = 'ok ' + ('True' if r else 'False')
                if not isinstance(v, str):
                    if r:
                        c.viol = ('c18:hostname-accepts-invalid:non-string', f'is_valid_hostname({v!r}) = {r!r}')
                elif bool(r) != o_hostname(v):
                    fam = classify_family('hostname', v)
                    key = ('c18:hostname-accepts-invalid:' + fam) if r else 'c18:hostname-rejects-valid'
                    c.viol = (key, f'is_valid_hostname({v!r}) = {r}, the grammar says {o_hostname(v)}')
            except VT as e:
                c.impl = exc_name(e)
                if isinstance(v, str) and o_hostname(v):
                    c.viol = ('c18:hostname-rejects-valid', f'is_valid_hostname({v!r}) raised {exc_name(e)}')
        elif op == 'classify':
            v = a[0]
            tab = table_for([v]) if isinstance(v, str) else {}
            c.line = 'classify ' + enc_val(v) + fmt_table(tab)
            isip = isinstance(v, (ipaddress.IPv4Address, ipaddress.IPv6Address))
            try:
                r = util.classify_host(v)
                c.impl = 'ok ' + fmt_host(r)
                if isip:
                    pass                          # (what comes back is compared with the model)
                elif not isinstance(v, str):
                    c.viol = ('c18:classify-accepts-invalid:non-string', f'classify_host({v!r}) = {r!r}')
                elif not o_hostname(v):
                    ip = o_ip(v)
                    if ip is None:
                        c.viol = ('c18:classify-accepts-invalid:' + classify_family('hostname', v),
                                  f'classify_host({v!r}) = {r!r}: neither a valid host name nor an IP literal')
                    elif r != ip or type(r) is not type(ip):
                        c.viol = ('c18:classify-wrong-value', f'classify_host({v!r}) = {r!r}, it parses as {ip!r}')
            except VT as e:
                c.impl = exc_name(e)
                if isip:
                    c.viol = ('c18:classify-rejects-valid', f'classify_host({v!r}) raised {exc_name(e)}')
                elif isinstance(v, str):
                    if o_hostname(v) or o_ip(v) is not None:
                        c.viol = ('c18:classify-rejects-valid', f'classify_host({v!r}) raised {exc_name(e)}')
                    elif exc_name(e) != 'ValueError':
                        # the one place where the text names the exception: "or is refused with ValueError"
                        c.viol = ('c18:classify-wrong-exception', f'classify_host({v!r}) raised {exc_name(e)}')
        elif op == 'port':
            v = a[0]
            c.line = f'port {maxdigits} ' + enc_val(v)
            want = expect_port(v, maxdigits)
            try:
                r = util.validate_port(v)
                c.impl = f'ok {int(r)}'
                if want is not None and want[0] == 'refuse':
                    c.viol = ('c18:port-accepts-invalid', f'validate_port({v!r}) = {r!r}; not a port in 1..65535')
                elif want is not None and (not isinstance(r, int) or int(r) != want[1]):
                    c.viol = ('c18:port-wrong-value', f'validate_port({v!r}) = {r!r}, expected {want[1]}')
            except VT as e:
                c.impl = exc_name(e)
                if want is not None and want[0] == 'ok':
                    c.viol = ('c18:port-rejects-valid', f'validate_port({v!r}) raised {exc_name(e)}')
        elif op == 'split':
            s = a[0]
            c.line = 'split ' + enc(s)
            got = facts_c18.split_observe(util, s)       # through NetAddress.from_string, not by name
            if got is None or not (isinstance(got[0], str) and isinstance(got[1], str)):
                c.line = None                            # not observable on this tree: nothing to compare
                c.impl = 'unobservable'
            else:
                c.impl = enc(got[0]) + ' ' + enc(got[1])
        elif op == 'ip4':
            s = a[0]
            c.line = 'ip4 ' + enc(s)
            ip = o_ip(s)
            c.impl = '4:' + str(ip) if isinstance(ip, ipaddress.IPv4Address) else '-'
        elif op == 'show4':
            ip = a[0]
            c.line = 'show4 ' + str(ip)
            c.impl = enc(str(ip))
        elif op == 'mkaddr':
            h, p = a
            strs = [h] if isinstance(h, str) else ([str(h)] if isinstance(h, ipaddress.IPv6Address) else [])
            c.line = f'mkaddr {enc_val(h)} {enc_val(p)}' + fmt_table(table_for(strs))
            try:
                obj = util.NetAddress(h, p)
            except VT as e:
                c.impl = exc_name(e)
                hv = isinstance(h, (ipaddress.IPv4Address, ipaddress.IPv6Address)) or \
                    (isinstance(h, str) and (o_hostname(h) or o_ip(h) is not None))
                pv = expect_port(p, maxdigits)
                if hv and pv is not None and pv[0] == 'ok':
                    c.viol = ('c18:netaddress-rejects-valid', f'NetAddress({h!r}, {p!r}) raised {exc_name(e)}')
                return
            c.impl, c.viol = roundtrip(obj, util.NetAddress, fmt_addr, 'netaddress', f'NetAddress({h!r}, {p!r})')
            why = addr_invalid(obj)
            if why and not c.viol:
                c.viol = ('c18:netaddress-accepts-invalid:' + why[0], f'NetAddress({h!r}, {p!r}) constructed: {why[1]}')
        elif op == 'addr':
            v = a[0]
            c.line = 'addr ' + enc_val(v) + fmt_table(table_for([v]) if isinstance(v, str) else {})
            try:
                obj = util.NetAddress.from_string(v)
                c.impl = 'ok ' + fmt_addr(obj)
                why = addr_invalid(obj)
                if why:
                    c.viol = ('c18:netaddress-accepts-invalid:' + why[0], f'NetAddress.from_string({v!r}): {why[1]}')
            except VT as e:
                c.impl = exc_name(e)
        elif op == 'svc':
            v = a[0]
            c.line = 'svc ' + enc_val(v) + fmt_table(table_for([v]) if isinstance(v, str) else {})
            try:
                obj = util.Service.from_string(v)
                c.impl = 'ok ' + fmt_svc(obj)
                why = svc_invalid(obj)
                if why:
                    c.viol = ('c18:service-accepts-invalid:' + why[0], f'Service.from_string({v!r}): {why[1]}')
            except VT as e:
                c.impl = exc_name(e)
        elif op == 'mksvc':
            p, ad = a
            c.line = f'mksvc {enc_val(p)} {enc_val(ad)}' + fmt_table(table_for([ad]) if isinstance(ad, str) else {})
            try:
                obj = util.Service(p, ad)
            except VT as e:
                c.impl = exc_name(e)
                return
            c.impl, c.viol = roundtrip(obj, util.Service, fmt_svc, 'service', f'Service({p!r}, {ad!r})')
            why = svc_invalid(obj)
            if why and not c.viol:
                c.viol = ('c18:service-accepts-invalid:' + why[0], f'Service({p!r}, {ad!r}) constructed: {why[1]}')
        elif op == 'mksvco':
            p, h, port = a
            strs = [h] if isinstance(h, str) else ([str(h)] if isinstance(h, ipaddress.IPv6Address) else [])
            c.line = f'mksvco {enc_val(p)} {enc_val(h)} {enc_val(port)}' + fmt_table(table_for(strs))
            try:
                addr = util.NetAddress(h, port)
            except VT as e:
                c.impl = 'addr-' + exc_name(e)
                return
            try:
                obj = util.Service(p, addr)
            except VT as e:
                c.impl = exc_name(e)
                if isinstance(p, str) and o_protocol(p):
                    c.viol = ('c18:service-rejects-valid', f'Service({p!r}, {addr!r}) raised {exc_name(e)}')
                return
            c.impl, c.viol = roundtrip(obj, util.Service, fmt_svc, 'service', f'Service({p!r}, NetAddress({h!r}, {port!r}))')
            why = svc_invalid(obj)
            if why and not c.viol:
                c.viol = ('c18:service-accepts-invalid:' + why[0], f'Service({p!r}, NetAddress(..)) constructed: {why[1]}')
        elif op == 'addrd':
            v, dh, dp = a
            strs = [x for x in (v, dh) if isinstance(x, str)]
            c.line = f'addrd {enc_val(v)} {enc_val(dh)} {enc_val(dp)}' + fmt_table(table_for(strs))
            try:
                if dp is None and len(c.line) % 2:
                    func = util.NetAddress.default_host(dh)         # = default_host_and_port(dh, None)
                elif dh is None and len(c.line) % 2:
                    func = util.NetAddress.default_port(dp)         # = default_host_and_port(None, dp)
                else:
                    func = util.NetAddress.default_host_and_port(dh, dp)
                obj = util.NetAddress.from_string(v, default_func=func)
                c.impl = 'ok ' + fmt_addr(obj)
                why = addr_invalid(obj)
                if why:
                    c.viol = ('c18:netaddress-accepts-invalid:' + why[0],
                              f'NetAddress.from_string({v!r}, defaults {dh!r}, {dp!r}): {why[1]}')
            except VT as e:
                c.impl = exc_name(e)
        elif op == 'svcd':
            v, table = a
            rev = {1: 'h', 2: 'p', 0: 'r'}

            def g(protocol, part):
                return table.get((protocol, rev[int(part)]))
            strs = [v] + [x for x in table.values() if isinstance(x, str)]
            lowers = [x for x in (v, v.split('://', 1)[0], table.get((None, 'r'))) if isinstance(x, str)]
            c.line = ' '.join(['svcd', enc_val(v)] + g_entries(table)) + fmt_table(table_for(strs), lowers)
            # the default_func contract: the default protocol is a str or falsy (props/C18.json)
            contract = not table.get((None, 'r')) or isinstance(table.get((None, 'r')), str)
            c.nocompare = not contract      # what a contract-breaking callback causes is not compared
            try:
                obj = util.Service.from_string(v, default_func=g)
                c.impl = 'ok ' + fmt_svc(obj)
                why = svc_invalid(obj)
                if why:
                    c.viol = ('c18:service-accepts-invalid:' + why[0], f'Service.from_string({v!r}, default_func): {why[1]}')
            except VT as e:
                c.impl = exc_name(e)
            except AttributeError as e:
                c.impl = exc_name(e)
                if contract:    # the callback kept its contract, so this is the code's own failure
                    c.viol = ('c18:other-exception:svcd', f'Service.from_string({v!r}, default_func) raised AttributeError')
        elif op in ('eqaddr', 'eqsvc'):
            x1, y1, x2, y2 = a
            strs = [t for t in a if isinstance(t, str)] + [str(t) for t in a if isinstance(t, ipaddress.IPv6Address)]
            c.line = f'{op} {enc_val(x1)} {enc_val(y1)} {enc_val(x2)} {enc_val(y2)}' + fmt_table(table_for(strs))
            cls = util.NetAddress if op == 'eqaddr' else util.Service
            try:
                o1, o2 = cls(x1, y1), cls(x2, y2)
            except VT as e:
                c.impl = exc_name(e)
                return
            eq, ne = o1 == o2, o1 != o2
            c.impl = f'ok {1 if eq else 0}'
            same_args = (enc_val(x1), enc_val(y1)) == (enc_val(x2), enc_val(y2))
            if same_args and not (eq and not ne and hash(o1) == hash(o2)):
                c.viol = (f'c18:{op}:equal-objects-differ',
                          f'two {cls.__name__}({x1!r}, {y1!r}) objects: == {eq}, != {ne}, same hash {hash(o1) == hash(o2)}')
            elif bool(eq) == bool(ne):
                c.viol = (f'c18:{op}:eq-ne-inconsistent', f'{o1!r} vs {o2!r}: == {eq} and != {ne}')
        elif op == 'rx':
            mode, rxenc, name, s = a
            c.line = f'rx {mode} {rxenc} {enc(s)}'
            pat = RX_OBJECTS[name]
            c.impl = '1' if getattr(pat, mode)(s) else '0'
        else:
            raise AssertionError(op)
    except VT:
        raise
    except Exception as e:      # anything but ValueError / TypeError escaping the code under test
        if op in ('rx', 'ip4', 'show4'):
            raise
        c.impl = exc_name(e)
        c.viol = ('c18:other-exception:' + op, f'{op}{tuple(a)!r} raised {exc_name(e)}: {e}')


def addr_invalid(obj):
    h, p = obj.host, obj.port
    if not (isinstance(p, int) and 1 <= p <= 65535):
        return ('port', f'port {p!r} is not an integer in 1..65535')
    if isinstance(h, (ipaddress.IPv4Address, ipaddress.IPv6Address)):
        return None
    if not (isinstance(h, str) and o_hostname(h)):
        return (classify_family('hostname', h), f'host {h!r} is neither a valid host name nor an IP address')
    return None


def svc_invalid(obj):
    if not (isinstance(obj.protocol, str) and o_protocol(obj.protocol)):
        return (classify_family('protocol', obj.protocol), f'protocol {obj.protocol!r} is not a valid protocol name')
    return addr_invalid(obj.address)


def roundtrip(obj, cls, fmt, what, how):
    """print, parse back, compare: -> (canonical output, violation or None)"""
    text = str(obj)
    viol = None
    h6 = obj.host if what == 'netaddress' else obj.address.host
    if isinstance(h6, ipaddress.IPv6Address) and not (':' in str(h6) and o_ip(str(h6)) == h6):
        viol = ('c18:iplib-law', f'ipaddress breaks an assumed law on {h6!r}')
    try:
        back = cls.from_string(text)
        rt = 'ok_' + fmt(back)
        eq = 1 if back == obj else 0
        if not eq:
            viol = (f'c18:{what}-roundtrip:not-equal', f'{how}: from_string({text!r}) = {back!r} != original')
    except VT as e:
        rt = exc_name(e)
        eq = 0
        port = obj.port
        fam = 'bool-port' if isinstance(port, bool) else \
            ('ipv6-scope-bracket' if isinstance(obj.host, ipaddress.IPv6Address) and ']' in str(obj.host) else 'other')
        viol = viol or (f'c18:{what}-roundtrip:{fam}', f'{how}: str() = {text!r} does not parse back ({exc_name(e)})')
    return f'ok {fmt(obj)} {enc(text)} rt={rt} eq={eq}', viol


# ---------------------------------------------------------------- evaluation
RX_OBJECTS = {}


def bool_port_refused(c):
    """The property speaks of integers and digit strings; whether `True`/`False` count as the
    integers 1/0 (as the code and the model have it) or are refused outright is not fixed by it, so
    a refusal of a bool port is not compared with the model."""
    if c.op == 'port':
        v = py_other(c.args[0])
    elif c.op == 'mkaddr':
        v = py_other(c.args[1])
    elif c.op == 'addrd':
        v = py_other(c.args[2])
    else:
        return False
    return isinstance(v, bool) and c.impl in ('TypeError', 'ValueError')


def model_parallel(ctx, lines, parts=3):
    """the driver's answers; big batches are split over a few driver processes"""
    if len(lines) < 30000:
        return ctx.model(lines)
    size = (len(lines) + parts - 1) // parts
    futs = [_POOL.submit(ctx.model, lines[i:i + size]) for i in range(0, len(lines), size)]
    out = []
    for f in futs:
        r = f.result()
        if r is None:
            return None
        out += r
    return out


def evaluate(ctx, cases, res, tag):
    md = ctx.facts.get('max_str_digits', sys.get_int_max_str_digits())
    for c in cases:
        run_case(c, md)
    skipped = [c for c in cases if c.line is None]
    if skipped:
        res.count('not_observable:' + skipped[0].op, len(skipped))
        cases = [c for c in cases if c.line is not None]
    model = model_parallel(ctx, [c.line for c in cases])
    for i, c in enumerate(cases):
        if c.viol:
            res.violation(c.viol[0], c.record(), c.viol[1], impl=c.impl, scope=tag)
        if c.nocompare:
            res.count('outside_contract_not_compared:' + c.op)
        elif model is not None and model[i] != c.impl and not bool_port_refused(c):
            res.disagreement(c.record(), c.impl, model[i], scope=tag, line=c.line[:300])
        res.count('op:' + c.op)
        if c.impl is not None and c.op not in ('split', 'show4', 'ip4', 'rx'):
            res.count(f'outcome:{c.op}:' + c.impl.split(' ')[0].split(':')[0])
        if c.impl and c.impl.startswith('ok') and c.op != 'split':
            res.nontrivial((c.op, c.line))
    res['evaluations'] += len(cases)
    res['scopes'][tag] = res['scopes'].get(tag, 0) + len(cases)


# ---------------------------------------------------------------- code-point sweeps
OPS = {'host': 'host', 'proto': 'proto', 'port': 'port', 'classify': 'classify'}
NOT_REFUSAL_CAP = 4000


def quick_segments(rng):
    """code points that some str / re / unicodedata operation could plausibly treat specially (used
    for the `classify_host` contexts on the quick tier; every other context is exhaustive)"""
    keep = set(range(0, 0x3400)) | set(range(0xD7F0, 0xE010)) | set(range(0xF900, 0x10000)) \
        | set(range(0x1D400, 0x1D800)) | set(range(0xE0000, 0xE0080)) | set(range(0x10FFF0, NCP))
    for cp in range(0x3400, NCP):
        ch = chr(cp)
        if ch.isdigit() or ch.isdecimal() or ch.isnumeric() or ch.isspace() or \
                (ch.lower() + ch.upper() + ch.casefold()).isascii():
            keep.update((cp - 1, cp, cp + 1))
    for _ in range(48):
        b = rng.randrange(0x3400, NCP - 64)
        keep.update(range(b, b + 64))
    return facts_c18.to_ranges(sorted(c for c in keep if 0 <= c < NCP))


_DECIMALS = None


def oracle_candidates(runs, lo, hi):
    """the code points of lo..hi on which the oracle has to be asked: ASCII, every Unicode decimal
    digit, and everything the implementation did not plainly refuse.  On all others the grammar
    refuses by construction (a protocol / host name / IP literal / digit string has no such
    character) and the implementation refused too."""
    global _DECIMALS
    if _DECIMALS is None:
        _DECIMALS = [c for c in range(128, NCP) if unicodedata.decimal(chr(c), None) is not None]
    cand = set(c for c in range(0, 128) if lo <= c <= hi)
    cand.update(c for c in _DECIMALS if lo <= c <= hi)
    extra = 0
    for rlo, rhi, o in runs:
        if o not in ('ValueError', 'ok_False'):
            for c in range(rlo, rhi + 1):
                cand.add(c)
                extra += 1
                if extra > NOT_REFUSAL_CAP:
                    break
        if extra > NOT_REFUSAL_CAP:
            break
    return sorted(cand)


def first_difference(impl_runs, model_text):
    """first code point where the two run-length encodings differ -> (cp, impl, model)"""
    mruns = []
    for part in model_text.split(' '):
        rng_, _, o = part.partition('=')
        lo, _, hi = rng_.partition('-')
        try:
            mruns.append((int(lo, 16), int(hi, 16), o))
        except ValueError:
            return None
    i = j = 0
    while i < len(impl_runs) and j < len(mruns):
        (alo, ahi, ao), (blo, bhi, bo) = impl_runs[i], mruns[j]
        lo = max(alo, blo)
        if ao != bo:
            return lo, ao, bo
        if ahi <= bhi:
            i += 1
        if bhi <= ahi:
            j += 1
    return None


def check_table(ctx, res, name, fn, pre, suf, segments, md):
    """segments: [(lo, hi, runs)] - the implementation's outcomes on pre+chr(c)+suf.  Oracle on the
    candidates here; the model (driver `sweep`, every code point) is asked asynchronously:
    -> (code points covered, pending comparison for `finish_table`)"""
    lines, ncp = [], 0
    for lo, hi, runs in segments:
        ncp += hi - lo + 1
        tabstr = []
        for rlo, rhi, o in runs:
            if o.startswith('6:'):
                tabstr += [pre + chr(c) + suf for c in range(rlo, min(rhi, rlo + 64) + 1)]
        lines.append(f'sweep {fn} {md} {enc(pre)} {enc(suf)} {lo:x} {hi:x}' + fmt_table(table_for(tabstr)))
        acc = sum(rhi - rlo + 1 for rlo, rhi, o in runs
                  if o not in ('ValueError', 'TypeError', 'ok_False') and (o.startswith('ok_') or o[0] in 'N46'))
        res.count('sweep_accepted:' + fn, acc)
        # ---- oracle
        for cp in oracle_candidates(runs, lo, hi):
            c = Case(OPS[fn], pre + chr(cp) + suf)
            run_case(c, md)
            if c.viol:
                res.violation(c.viol[0], c.record(), c.viol[1], impl=c.impl, scope='sweep:' + name)
        for rlo, rhi, o in runs:
            if o not in ('ValueError', 'TypeError', 'ok_False') and not o.startswith('ok_') and o[0] not in 'N46':
                sx = pre + chr(rlo) + suf
                res.violation('c18:other-exception:' + fn, Case(OPS[fn], sx).record(),
                              f'{fn}({sx!r}) raised {o}', scope='sweep:' + name)
    fut = _POOL.submit(ctx.model, lines)
    res['evaluations'] += ncp
    return ncp, (name, fn, pre, suf, segments, lines, fut)


def finish_table(res, pending):
    """compare the model's answer (asked for asynchronously by `check_table`) with the table"""
    name, fn, pre, suf, segments, lines, fut = pending
    model = fut.result()
    if model is None:
        return
    for (lo, hi, runs), line, m in zip(segments, lines, model):
        if m != facts_c18.rle_text(runs):
            d = first_difference(runs, m)
            if d is None:
                res.disagreement({'op': 'sweep', 'context': name, 'lo': lo, 'hi': hi},
                                 facts_c18.rle_text(runs)[:300], m[:300], scope='sweep:' + name, line=line[:200])
                continue
            cp, io, mo = d
            rec = Case(OPS[fn], pre + chr(cp) + suf).record()
            res.disagreement(rec, io, mo, scope='sweep:' + name, line=f'{OPS[fn]} {enc_val(pre + chr(cp) + suf)}')


def run_sweeps(ctx, res, level, tables=True):
    """every code point in every position context: the proto / host / port contexts come from the
    facts (the real functions run on all 0x110000 code points, memoised on the source text); the
    `classify_host` contexts are run here (all code points on the thorough tier, the
    decision-relevant subset otherwise)"""
    md = ctx.facts.get('max_str_digits', sys.get_int_max_str_digits())
    tables_wanted = tables
    tables = ctx.facts.get('tables') if isinstance(ctx.facts, dict) else None
    contexts = facts_c18.CONTEXTS
    if not tables or set(tables) != set(contexts) or \
            ctx.facts.get('source_key') != facts_c18.source_key(ctx.repo, contexts):
        # no tables, or tables of another tree (facts taken from the cache after a failed extraction)
        tables = facts_c18.compute_tables(ctx.repo)
    total = 0
    pending = []

    def one(name, fn, pre, suf, segments):
        nonlocal total
        n, pend = check_table(ctx, res, name, fn, pre, suf, segments, md)
        total += n
        pending.append(pend)
    if tables_wanted:
        for name, (fn, pre, suf) in contexts.items():
            one(name, fn, pre, suf, [(0, NCP - 1, [tuple(r) for r in tables[name]])])
    full_classify = level >= 2
    segs = [[0, NCP - 1]] if full_classify else quick_segments(ctx.rng)
    cctx = facts_c18.CLASSIFY_CONTEXTS
    if full_classify:
        tabs = facts_c18.compute_tables(ctx.repo, cctx)
        for name, (fn, pre, suf) in cctx.items():
            one(name, fn, pre, suf, [(0, NCP - 1, [tuple(r) for r in tabs[name]])])
    else:
        names = list(cctx)[:4] if level == 0 else list(cctx)
        for name in names:
            fn, pre, suf = cctx[name]
            one(name, fn, pre, suf,
                [(lo, hi, [tuple(r) for r in facts_c18.sweep_runs(util, fn, pre, suf, lo, hi)]) for lo, hi in segs])
    for pend in pending:
        finish_table(res, pend)
    res['scopes']['sweep_strings'] = total
    res['scopes']['sweep_contexts'] = {'all_code_points': len(contexts) + (len(cctx) if full_classify else 0),
                                       'classify_subset': 0 if full_classify else (4 if level == 0 else len(cctx))}
    res['scopes']['classify_code_points_per_context'] = sum(h - l + 1 for l, h in segs)
    return full_classify


# ---------------------------------------------------------------- regex engine correspondence
def rx_encode(form, key='items'):
    def atom(a):
        if a[0] == 'cls':
            cls = ','.join(f'{lo:x}-{hi:x}' for lo, hi in form['classes'][a[1]])
            return f'c{a[2]},{"*" if a[3] is None else a[3]}:{cls}'
        if a[0] == 'bos':
            return '^'
        return '$' if a[1] == 'dollar' else 'Z'
    items = []
    for it in form[key]:
        if it[0] == 'opt':
            items.append('?(' + '&'.join(atom(x) for x in it[1]) + ')')
        else:
            items.append(atom(it))
    return ';'.join(items) if items else '-'


def random_regex(rng):
    classes = ['[a-z]', '[0-9]', 'a', '[^a]', '[a-z0-9-]', 'k', '[+-.]', r'\n']
    quants = ['', '', '+', '*', '?', '{0,2}', '{1,3}', '{2}', '+?', '*?']
    def atoms(n):
        return ''.join(rng.choice(classes) + rng.choice(quants) for _ in range(n))
    pat = ''
    if rng.random() < 0.4:
        pat += '^'
    pat += atoms(rng.randint(1, 2))
    if rng.random() < 0.5:
        pat += '(' + atoms(rng.randint(1, 2)) + ')?'
    if rng.random() < 0.3:
        pat += rng.choice(['$', r'\Z']) + atoms(1)
    if rng.random() < 0.8:
        pat += rng.choice(['$', r'\Z'])
    flags = rng.choice([0, 0, re.IGNORECASE, re.IGNORECASE | re.ASCII])
    return pat, flags


def regex_cases(ctx, res, rng):
    """the model's `re` semantics (Regex.lean) against the real engine: on every compiled pattern
    found as a module global of util.py that is inside the linear fragment (informational - a tree
    that validates without regexes simply has none), under all three ways of applying it, and on
    random linear regexes"""
    cases = []
    strings = [''.join(t) for n in range(0, 4) for t in itertools.product(ALPHABET, repeat=n)]
    forms = ctx.facts.get('regexes') if isinstance(ctx.facts, dict) else None
    for name, form in sorted((forms or {}).items()):
        pat = getattr(util, name, None)
        if 'unsupported' in form or 'items' not in form or not isinstance(pat, re.Pattern):
            res.count('regex_outside_fragment')
            continue
        RX_OBJECTS[name] = pat
        raw = rx_encode(form)
        extra = ['a' * 62, 'a' * 63, 'a' * 64, 'a' * 63 + '\n', 'tcp\n', 't,p', '1\n', '\n', 'a\n\n']
        for sx in strings + extra:
            for mode in ('match', 'fullmatch', 'search'):
                cases.append(Case('rx', mode, raw, name, sx))
        res.count('module_regexes_compared')
    # random linear regexes: validates the regex semantics of the model and the extractor in general
    if facts_c18._parser is None:
        return cases
    try:
        n = (400 if ctx.tier == 'thorough' else 150) if ctx.deep else 60
        pool = ['a', 'b', 'k', 'K', '0', '-', ',', '\n', 'K', 'ſ']
        made = 0
        tries = 0
        while made < n and tries < 20 * n:
            tries += 1
            pat, flags = random_regex(rng)
            form = facts_c18.linear_form(pat, flags)
            if 'unsupported' in form:
                continue
            made += 1
            name = f'rnd{made}'
            RX_OBJECTS[name] = re.compile(pat, flags)
            encd = rx_encode(form)
            for _ in range(40):
                s = ''.join(rng.choice(pool) for _ in range(rng.randint(0, 5)))
                cases.append(Case('rx', rng.choice(('match', 'fullmatch', 'search')), encd, name, s))
        res['scopes']['random_linear_regexes'] = made
    finally:
        pass
    return cases


# ---------------------------------------------------------------- generators
def gen_label(rng, n=None):
    n = n or rng.choice([1, 1, 2, 3, 5, 8, 62, 63])
    edge = 'abcxyzABZ019_'
    mid = edge + '--'
    if n == 1:
        return rng.choice(edge)
    return rng.choice(edge) + ''.join(rng.choice(mid) for _ in range(n - 2)) + rng.choice(edge)


def gen_hostname(rng):
    labels = [gen_label(rng) for _ in range(rng.randint(1, 5))]
    if all(c in DIG for c in labels[-1]):
        labels[-1] = 'x' + labels[-1][1:]
    h = '.'.join(labels)
    if len(h) > 253:
        h = h[:253].rstrip('-.')
        if not o_hostname(h):
            h = 'example.com'
    if rng.random() < 0.2:
        h += '.'
    return h


def gen_ipv6_text(rng):
    groups = [format(rng.choice([0, 0, 0, 1, 0xffff, rng.randrange(0x10000)]), 'x') for _ in range(8)]
    s = ':'.join(groups)
    r = rng.random()
    if r < 0.2:
        s = rng.choice(['::', '::1', 'fe80::1', '2001:db8::', '::ffff:1.2.3.4', '1::'])
    elif r < 0.35:
        s = ':'.join(groups[:6]) + ':' + '.'.join(str(rng.randrange(256)) for _ in range(4))
    if rng.random() < 0.3:
        s += '%' + rng.choice([''.join(rng.choice('eth0]:[/ \n-') for _ in range(rng.randint(1, 4))), '://', ']:80', 'eth0'])
    return s


def gen_host_value(rng):
    r = rng.random()
    if r < 0.4:
        return gen_hostname(rng)
    if r < 0.6:
        t = '.'.join(str(rng.choice([0, 1, 9, 10, 99, 100, 255, rng.randrange(256)])) for _ in range(4))
        return t if rng.random() < 0.5 else ipaddress.IPv4Address(t)
    t = gen_ipv6_text(rng)
    ip = o_ip(t)
    if ip is None:
        return t
    return t if rng.random() < 0.5 else ip


def gen_port_value(rng):
    n = rng.choice([1, 2, 80, 443, 8080, 65534, 65535, rng.randrange(1, 65536), 0, 65536, -1])
    r = rng.random()
    if r < 0.45:
        return n
    if r < 0.8:
        return str(n)
    if r < 0.85:
        return '0' * rng.randint(1, 3) + str(n)
    if r < 0.9:
        return ''.join(chr(0x660 + int(d)) if d.isdigit() else d for d in str(n))
    return rng.choice([True, False, None, 1.0, b'80', '', ' 80', '80 ', '+80', '8_0', '²'])


def gen_protocol(rng):
    first = rng.choice('abctzABZ')
    return first + ''.join(rng.choice('abcxyzABZ019+-.') for _ in range(rng.randint(1, 8)))


def mutate(rng, s):
    extra = ALPHABET + [':', '[', ']', '%', '/', '://', '1', '65536']
    for _ in range(rng.randint(1, 2)):
        i = rng.randint(0, len(s))
        r = rng.random()
        if r < 0.4:
            s = s[:i] + rng.choice(extra) + s[i:]
        elif r < 0.7 and s:
            s = s[:i] + s[i + 1:]
        else:
            s = s[:i] + rng.choice(extra) + s[i + 1:]
    return s


def generated_cases(rng, n):
    out = []
    for _ in range(n):
        h, p = gen_host_value(rng), gen_port_value(rng)
        out.append(Case('mkaddr', h, Other(p) if not isinstance(p, (int, str)) else p))
        hs = str(h)
        text = f'[{hs}]:{p}' if ':' in hs else f'{hs}:{p}'
        if isinstance(p, (int, str)) and not isinstance(p, bool):
            out.append(Case('addr', text))
            out.append(Case('addr', mutate(rng, text)))
            out.append(Case('split', mutate(rng, text)))
        proto = gen_protocol(rng)
        out.append(Case('mksvc', proto, text))
        if isinstance(p, (int, str)):
            out.append(Case('mksvco', proto if rng.random() < 0.8 else mutate(rng, proto), h, p))
        out.append(Case('svc', f'{proto}://{text}'))
        out.append(Case('svc', mutate(rng, f'{proto}://{text}')))
        out.append(Case('proto', mutate(rng, proto)))
        if isinstance(h, str):
            out.append(Case('classify', mutate(rng, h)))
            out.append(Case('host', mutate(rng, h)))
    return out


def default_cases(rng, n):
    out = []
    hosts = ['example.com', '', None, 'h.x', '1.2.3.4', '::1', 5, 1.5, 'bad host', 'ex.com\n']
    ports = [80, '8080', None, 0, '', 65536, '65535', True, 1.5, 'x']
    protos = ['tcp', 'SSL', None, '', 5, 1.5, 't,p', 'ws', '\u212a\u212a', 0, False, []]
    for _ in range(n):
        h = rng.choice(['example.com', 'a.b', '1.2.3.4', '[::1]', '::1', '', '', 'x y', gen_hostname(rng)])
        p = rng.choice(['80', '', '', '65536', '0', '8080', 'x'])
        text = rng.choice([h, f'{h}:{p}', f'{h}:{p}', f':{p}', f'[{h}]', mutate(rng, f'{h}:{p}')])
        out.append(Case('addrd', text, Other(rng.choice(hosts)), Other(rng.choice(ports))))
        proto = rng.choice(['tcp', 'SSL', 'ws', 't+x', 'Tcp', 'bad proto', '', '\u212a\u212a', 'T\u0130', 'tc\u03a3',
                            'S\u017fL'])
        stext = rng.choice([f'{proto}://{text}', f'{proto}://{text}', proto, text, f'{proto}://', mutate(rng, f'{proto}://{text}')])
        table = {(None, 'r'): rng.choice(protos)}
        keys = {proto, proto.lower(), stext, stext.lower(), stext.split('://', 1)[0], stext.split('://', 1)[0].lower()}
        d = table[(None, 'r')]
        if isinstance(d, str):
            keys |= {d, d.lower()}
        for k in keys:
            if rng.random() < 0.7:
                table[(k, 'h')] = rng.choice(hosts)
            if rng.random() < 0.7:
                table[(k, 'p')] = rng.choice([x for x in ports if not isinstance(x, bool)])
        out.append(Case('svcd', stext, table))
    return out


def length_cases():
    out = []
    for n in (61, 62, 63, 64, 65):
        for l in ('a' * n, 'a' * (n - 1) + '-', '-' + 'a' * (n - 1), 'a' + '-' * (n - 2) + 'a', '1' * n):
            for s in (l, l + '.com', 'x.' + l, l + '.', 'x.' + l + '.'):
                out += [Case('host', s), Case('classify', s)]
    for total in (251, 252, 253, 254, 255, 256):
        # labels of 63 joined by dots, trimmed to the exact total
        base = '.'.join(['a' * 63] * 4)
        s = base[:total] if total <= len(base) else base + 'b' * (total - len(base))
        for t in (s, s + '.', s + '..', s[:-1] + '1', 'b' + s[1:]):
            if not t.endswith('..') and t.rstrip('.').endswith('.'):
                continue
            out += [Case('host', t), Case('classify', t)]
    for n in (1, 2, 3, 4, 5, 6, 4299, 4300, 4301, 5000):
        out += [Case('port', '0' * (n - 1) + '7'), Case('port', '9' * n)]
    for n in (1, 2, 62, 63, 64, 300):
        out += [Case('proto', 'a' * n), Case('proto', 'a' + '+' * n)]
    return out


def type_cases():
    vals = [None, 5, 0, True, False, 1.5, b'tcp', b'80', [], (), {}, ipaddress.IPv4Address('1.2.3.4'),
            ipaddress.IPv6Address('::1'), ipaddress.IPv6Address('fe80::1%eth0'), 10 ** 30, -10 ** 30,
            10 ** 4000, 65535, 65536]
    out = []
    for v in vals:
        w = v if isinstance(v, (int, str, ipaddress.IPv4Address, ipaddress.IPv6Address)) else Other(v)
        for op in ('proto', 'host', 'classify', 'port', 'addr', 'svc'):
            out.append(Case(op, w))
        out.append(Case('mkaddr', w, 80))
        out.append(Case('mkaddr', 'example.com', w))
        out.append(Case('mksvc', w, 'example.com:80'))
        out.append(Case('mksvc', 'tcp', w))
    return out


def int_cases(lo, hi):
    out = []
    fw = {str(d): chr(0xFF10 + d) for d in range(10)}
    ar = {str(d): chr(0x663 - 3 + d) for d in range(10)}
    for n in range(lo, hi + 1):
        t = str(n)
        out.append(Case('port', n))
        out.append(Case('port', t))
        out.append(Case('port', '0' + t))
        if n >= 0:
            out.append(Case('port', ''.join(fw[d] for d in t)))
            out.append(Case('port', t[:-1] + ar[t[-1]]))
    return out


def ip4_cases(rng, n):
    out = []
    octs = ['0', '1', '9', '10', '99', '100', '255', '256', '00', '01', '001', '1000', '', ' 1', '1 ', '-1', '+1',
            '١', '１', '1e1', '0x1']
    for _ in range(n):
        k = rng.choice([4, 4, 4, 3, 5])
        s = '.'.join(rng.choice(octs) for _ in range(k))
        out.append(Case('ip4', s))
        out.append(Case('classify', s))
    for _ in range(n // 4):
        out.append(Case('show4', ipaddress.IPv4Address(rng.choice([0, 1, 0xFFFFFFFF, rng.randrange(1 << 32)]))))
    return out


def corpus_cases(verif):
    out = []
    for line in corpus_lines(verif, 'C18'):
        toks = line.split()
        out.append(Case(toks[0], *[Other(dec_val(t)) if t in ('o', 'n') else dec_val(t) for t in toks[1:]]))
    return out


def eq_cases(rng, n):
    """pairs of NetAddress / Service objects: equal content written the same way and differently
    ('80' vs 80, an IP literal vs the address object, upper- vs lower-case protocol), different
    content - `==`, `!=` and `hash` are what "gives an equal object" is observed with"""
    out = []
    hosts = ['a.com', 'A.com', 'b.com', 'a.com.', '1.2.3.4', ipaddress.IPv4Address('1.2.3.4'), '1.2.3.5',
             '::1', ipaddress.IPv6Address('::1'), '0:0::1', 'fe80::1%eth0', '-bad-', 5]
    ports = [80, '80', '080', 81, 65535, '65535', 0, True]
    protos = ['tcp', 'TCP', 'ssl', 't,p']
    for _ in range(n):
        h1, h2 = rng.choice(hosts), rng.choice(hosts)
        p1, p2 = rng.choice(ports), rng.choice(ports)
        if rng.random() < 0.3:
            h2, p2 = h1, p1
        out.append(Case('eqaddr', h1, p1, h2, p2))
        if isinstance(h1, (str, ipaddress.IPv4Address)) and isinstance(h2, (str, ipaddress.IPv4Address)):
            a1 = f'{h1}:{p1}' if ':' not in str(h1) else f'[{h1}]:{p1}'
            a2 = f'{h2}:{p2}' if ':' not in str(h2) else f'[{h2}]:{p2}'
            r1, r2 = rng.choice(protos), rng.choice(protos)
            if rng.random() < 0.3:
                r2, a2 = r1, a1
            out.append(Case('eqsvc', r1, a1, r2, a2))
    return out


def related_cases(rng, n):
    """families of strings that a normalising memo would confuse (case variants, U+212A / U+017F /
    U+0130 for k / s / i, surrounding blanks, a final newline or dot, leading zeros, full-width
    and Arabic digits), each family asked in a random order, valid members first as often as last"""
    out = []

    def variants(sx):
        vs = {sx, sx.upper(), sx.lower(), sx.swapcase(), sx + '\n', sx + ' ', ' ' + sx, sx + '.', sx + '..',
              sx.replace('k', '\u212a'), sx.replace('s', '\u017f'), sx.replace('i', '\u0130'),
              sx.replace('K', '\u212a'), sx.replace('S', '\u017f'), sx.replace('I', '\u0131'), sx.strip('.'),
              '0' + sx, sx.replace('1', '\uff11'), sx.replace('0', '\u0660'), sx.replace('-', '_'), sx + '\x00'}
        return sorted(vs)
    seeds_host = ['kiss.example.com', 'SKI.io', 'a-b.c-d.net', 'x1.y2', 'ex.com', 'k.s.i']
    seeds_proto = ['ssl', 'tcp', 'ws', 'ski+k', 'Kiss', 'irc.s-1']
    seeds_port = ['80', '8080', '65535', '1', '010', '65536']
    while len(out) < n:
        fam = rng.choice(('host', 'proto', 'port'))
        if fam == 'host':
            base = rng.choice(seeds_host + [gen_hostname(rng)])
            ops = ('host', 'classify')
        elif fam == 'proto':
            base = rng.choice(seeds_proto + [gen_protocol(rng)])
            ops = ('proto',)
        else:
            base = rng.choice(seeds_port + [str(rng.randrange(1, 70000))])
            ops = ('port',)
        vs = variants(base)
        rng.shuffle(vs)
        for _ in range(2):
            for v in vs:
                for op in ops:
                    out.append(Case(op, v))
            vs.reverse()
        if fam == 'host':
            for v in vs[:6]:
                out.append(Case('addr', v + ':80'))
                out.append(Case('svc', 'tcp://' + v + ':80'))
    return out[:n]


RULE = ('case = one call of validate_protocol / is_valid_hostname / classify_host / validate_port / '
        '_split_address / NetAddress(..)+str+from_string / Service(..)+str+from_string / '
        'NetAddress.from_string / Service.from_string (with and without default_func) / == of two '
        'objects / compiled-regex application, compared with the Lean model and judged by the grammar '
        'oracle; exhaustive scopes: EVERY code point in each of the 23 position contexts of '
        'validate_protocol / is_valid_hostname / validate_port (the classify_host contexts: every code '
        'point on the thorough tier, a decision-relevant subset otherwise), all strings over the '
        '15-symbol critical alphabet, all strings over {a 1 . : [ ] % /} for the address splitter, all '
        'ints -2..65537 with five string renderings; non-trivial = the implementation accepted the '
        'input (returned a value); distinct = distinct driver input lines')


def need_model(ctx):
    """the driver does not import the generated facts, so it builds even when a facts theorem
    breaks; not having it is toolchain trouble (exit 2), never a quiet pass without the model"""
    if not ctx.have_model and not os.environ.get('VERIF_ALLOW_NO_MODEL'):
        from lib.vcheck import MachineryError
        raise MachineryError('the model driver drv_c18 could not be built (lake build drv_c18)')


_DONE = set()       # (source key, scope) of deterministic scopes this process has already passed


def run(ctx):
    need_model(ctx)
    init(ctx.repo)
    res = Results()
    rng = ctx.rng
    # depth: 0 quick, 1 quick tier asked to look deeper (source drift / broken obligation; has to
    # stay within ~1 minute), 2 thorough
    level = 2 if ctx.tier == 'thorough' else (1 if ctx.deep else 0)
    key = facts_c18.source_key(ctx.repo, facts_c18.CONTEXTS)

    def once(scope, fn):
        """the scopes that do not depend on the seed give the same result when lib/vcheck.py runs
        the harness a second time at depth on the same tree: do them once per process"""
        if (key, scope) in _DONE:
            res['scopes'].setdefault('not_repeated_in_second_pass', []).append(scope)
            return
        before = (res.n_violations, res.n_disagreements)
        fn()
        if before == (res.n_violations, res.n_disagreements):
            _DONE.add((key, scope))

    # (a) corpus of past failures, argument types, lengths around the limits
    once('fixed', lambda: (evaluate(ctx, corpus_cases(ctx.verif), res, 'corpus'),
                           evaluate(ctx, type_cases(), res, 'argument_types'),
                           impl_only_checks(res),
                           evaluate(ctx, length_cases(), res, 'lengths_62_65_252_255')))
    # (b) every code point in every position context (the facts' tables: oracle + model)
    full = [False]
    if level == 1 and (key, 'sweeps0') in _DONE:
        run_sweeps(ctx, res, level, tables=False)       # only what level 1 adds: all classify contexts
    else:
        once(f'sweeps{level}', lambda: full.__setitem__(0, run_sweeps(ctx, res, level, tables=True)))
    # (c) the model's regex semantics vs the real engine
    evaluate(ctx, regex_cases(ctx, res, rng), res, 'regex_engine')
    # (d) exhaustive: critical alphabet
    maxlen = 5 if level == 2 and not res.failed else 4
    done = [0, 0]

    def alphabet15():
        for n in range(0, maxlen + 1):
            if res.failed and n > 3:
                break
            cs = []
            for t in itertools.product(ALPHABET, repeat=n):
                s = ''.join(t)
                cs += [Case('proto', s), Case('host', s), Case('classify', s), Case('port', s)]
            evaluate(ctx, cs, res, 'alphabet15')
            done[0] = n
    maxlen2 = 6 if level == 2 and not res.failed else 5

    def alphabet_addr8():
        for n in range(0, maxlen2 + 1):
            if res.failed and n > 4:
                break
            cs = []
            for t in itertools.product(ALPHABET2, repeat=n):
                s = ''.join(t)
                cs += [Case('split', s), Case('addr', s)]
                if n <= 4:
                    cs.append(Case('svc', 't+://' + s))
            evaluate(ctx, cs, res, 'alphabet_addr8')
            done[1] = n
    once(f'alphabet15:{maxlen}', alphabet15)
    once(f'alphabet_addr8:{maxlen2}', alphabet_addr8)
    if (key, f'alphabet15:{maxlen}') in _DONE:
        done[0] = maxlen
    if (key, f'alphabet_addr8:{maxlen2}') in _DONE:
        done[1] = maxlen2
    res['scopes']['split_rows_in_facts'] = len(ctx.facts.get('split_table', [])) if isinstance(ctx.facts, dict) else 0
    res['scopes']['alphabet15_max_len'] = done[0]
    res['scopes']['alphabet_addr8_max_len'] = done[1]
    # (e) exhaustive: integers and their renderings
    once('ints', lambda: evaluate(ctx, int_cases(-2, 65537), res, 'ints_-2_65537'))
    evaluate(ctx, ip4_cases(rng, (4000, 2000, 800)[2 - level]), res, 'ipv4_concrete')
    # (f) generated objects, strings from and near the grammar, equality
    big = not res.failed
    evaluate(ctx, generated_cases(rng, (1500, 5000, 20000)[level] if big else 1500), res, 'generated')
    evaluate(ctx, default_cases(rng, (1500, 4000, 12000)[level] if big else 1500), res, 'default_func')
    evaluate(ctx, eq_cases(rng, (600, 1500, 4000)[level]), res, 'equality')
    # (g) the answers are functions of the argument: the same questions again in a shuffled order
    # (a memo keyed on a normalised copy of the string, or any other carried state, answers a
    # string with what it computed for a relative asked earlier)
    evaluate(ctx, related_cases(rng, (4000, 8000, 30000)[level]), res, 'related_strings_shuffled')
    for c in generated_cases(random.Random(ctx.seed + 1), 2)[:4]:
        run_case(c, 4300)
        res.sample({'line': c.line[:200], 'impl': c.impl[:200]})
    # report the shortest failing input first
    res['violations'].sort(key=lambda v: (sum(len(a) for a in v['case'].get('args', [])), v['key']))
    res['disagreements'].sort(key=lambda d: len(d.get('line', '')) or 10 ** 6)
    res['scopes']['exhaustive'] = {'alphabet15_len': done[0], 'alphabet_addr8_len': done[1],
                                   'ints': '-2..65537', 'all_code_points_proto_host_port': True,
                                   'all_code_points_classify': bool(full[0])}
    # exhaustive over the stated small scopes (every code point in the 23 contexts, ports
    # -2..65537, the alphabets up to the lengths recorded under scopes)
    return res.finish(RULE, exhaustive=True)


def deep_nested(depth):
    x = []
    for _ in range(depth):
        x = [x]
    return x


def impl_only_checks(res):
    """inputs that cannot be put on the driver's line protocol (integers beyond the int->str digit
    limit, megabyte strings): only the exception-type clause of the property is checked.  Then the
    two things the property's quantifier leaves out, MEASURED and reported, never judged (see
    props/C18.json `assumptions`): arguments whose own str()/repr() fails (a list nested deeper
    than the recursion limit inside the f-string of the error message) and `==` against an object
    of another type."""
    probes = [('validate_port', util.validate_port, 10 ** 5000), ('validate_port', util.validate_port, -10 ** 5000),
              ('validate_port', util.validate_port, '9' * 100000),
              ('is_valid_hostname', util.is_valid_hostname, 'a.' * 500000),
              ('classify_host', util.classify_host, 'a' * 1000000),
              ('classify_host', util.classify_host, '\ud800.com'),
              ('validate_protocol', util.validate_protocol, 'a' + '+' * 1000000 + '\n'),
              ('NetAddress.from_string', util.NetAddress.from_string, '[' * 100000),
              ('Service.from_string', util.Service.from_string, '://' * 100000)]
    # containers that contain themselves print as '[[...]]': inside the property (TypeError expected)
    selfref = []
    selfref.append(selfref)
    selfdict = {}
    selfdict['k'] = selfdict
    for name, fn in [('validate_port', util.validate_port), ('validate_protocol', util.validate_protocol),
                     ('is_valid_hostname', util.is_valid_hostname), ('classify_host', util.classify_host),
                     ('NetAddress.from_string', util.NetAddress.from_string),
                     ('Service.from_string', util.Service.from_string)]:
        probes += [(name, fn, selfref), (name, fn, selfdict), (name, fn, (selfref, 1))]
    for name, fn, arg in probes:
        try:
            r = fn(arg)
            if name == 'is_valid_hostname' and r is False:
                continue
            res.violation('c18:accepts-invalid:huge', {'op': name, 'args': ['<huge>']},
                          f'{name}(<huge input>) returned {str(r)[:40]!r}')
        except VT:
            pass
        except Exception as e:
            res.violation('c18:other-exception:' + name, {'op': name, 'args': ['<huge or self-containing>']},
                          f'{name}(<huge / self-containing input>) raised {exc_name(e)}')
        res.count('impl_only_probes')
    res['evaluations'] += len(probes)
    # ---- outside the quantifier: measured
    notes = {}
    deep = deep_nested(100000)
    for name, fn in [('validate_port', util.validate_port), ('validate_protocol', util.validate_protocol),
                     ('is_valid_hostname', util.is_valid_hostname), ('classify_host', util.classify_host),
                     ('NetAddress.from_string', util.NetAddress.from_string),
                     ('Service.from_string', util.Service.from_string)]:
        try:
            fn(deep)
            notes['deep_list:' + name] = 'returned'
        except Exception as e:      # noqa: BLE001 - measured
            notes['deep_list:' + name] = exc_name(e)
    # (dismantle iteratively: dropping a 100000-deep list recursively can itself overflow the C stack)
    while deep:
        deep = deep[0]
    try:
        a = util.NetAddress('a.com', 80)
        sv = util.Service('tcp', 'a.com:80')
        for label, x, y in [('NetAddress==None', a, None), ('NetAddress==int', a, 5), ('NetAddress==str', a, 'a.com:80'),
                            ('NetAddress==Service', a, sv), ('Service==NetAddress', sv, a), ('Service==None', sv, None)]:
            try:
                notes['foreign_eq:' + label] = repr(x == y)
            except Exception as e:      # noqa: BLE001 - measured
                notes['foreign_eq:' + label] = exc_name(e)
    except Exception as e:      # noqa: BLE001
        notes['foreign_eq'] = 'could not construct: ' + exc_name(e)
    res['scopes']['outside_quantifier_measured'] = notes


def replay(ctx, case):
    need_model(ctx)
    init(ctx.repo)
    if 'case' in case and isinstance(case['case'], dict):
        case = case['case']
    elif 'op' not in case and case.get('disagreements'):
        case = case['disagreements'][0]['case']
    res = Results()
    if case.get('op') in ('sweep', None) or str(case.get('op', '')).count('.'):
        # a whole-table disagreement or an impl-only probe: nothing smaller to replay than the run
        return run(ctx)
    args = []
    for i, t in enumerate(case['args']):
        if case['op'] == 'rx':
            args.append(dec(t) if i == 3 else t)
        else:
            v = dec_val(t)
            args.append(Other(v) if t in ('o', 'n') else v)
    if case['op'] == 'svcd':
        args = [dec_val(case['args'][0]), g_decode(case['args'][1:])]
    if case['op'] == 'rx':
        name = args[2]
        RX_OBJECTS[name] = getattr(util, name, None) or re.compile(eval(case['pattern']), case['flags'])
    evaluate(ctx, [Case(case['op'], *args)], res, 'replay')
    res.sample(case)
    if not res.failed and not os.environ.get('VERIF_REPLAY_SINGLE'):
        # the recorded answer may depend on what was asked before it (carried state): nothing
        # smaller reproduces it than the run that found it
        return run(ctx)
    return res.finish('replay of one recorded case')
