"""C16 correspondence + search: the real SOCKS4 / SOCKS4a / SOCKS5 classes - driven by hand
(`next_message` / `receive_data`) and through the public `SOCKSProxy.create_connection` on a fake
network (several proxy addresses, fall-back after a failure in mid-handshake, concurrent calls
on one proxy object) - vs the Lean model (`drv_c16`), and the property oracle on every
implementation trace.

The oracle is written from the property text and the protocol documents only: independent
*server-side* parsers (SOCKS4.protocol / SOCKS4A.protocol, RFC 1928, RFC 1929) are applied to
the bytes the client emitted - per protocol object, and per proxy connection - and must recover
exactly the destination / credentials that were asked for, consuming every byte.  It never
looks at the model, and judges only bytes on the wire and the exceptions escaping the public
API."""
import os
from multiprocessing import Pool

from harness.base import Results
from harness import socks_common as sc
from harness import socks_world as sw

# ------------------------------------------------------------------ server-side parsers (spec)


def parse_socks4_request(b, ext_4a):
    """VN CD DSTPORT(2) DSTIP(4) USERID NUL [HOSTNAME NUL if DSTIP = 0.0.0.x, x != 0 (4a)]"""
    if len(b) < 9:
        return None
    i = b.find(0, 8)
    if i < 0:
        return None
    r = {'vn': b[0], 'cd': b[1], 'port': int.from_bytes(b[2:4], 'big'), 'ip': b[4:8],
         'user': b[8:i], 'host': None}
    rest = b[i + 1:]
    if ext_4a and b[4:7] == b'\0\0\0' and b[7] != 0:
        j = rest.find(0)
        if j < 0:
            return None
        r['host'] = rest[:j]
        rest = rest[j + 1:]
    r['rest'] = rest
    return r


def parse_greeting(b):
    """RFC 1928 s3: VER NMETHODS METHODS"""
    if len(b) < 2 or len(b) < 2 + b[1]:
        return None
    return {'ver': b[0], 'methods': list(b[2:2 + b[1]]), 'rest': b[2 + b[1]:]}


def parse_userpass(b):
    """RFC 1929 s2: VER(=1) ULEN UNAME PLEN PASSWD, ULEN and PLEN in 1..255"""
    if len(b) < 2:
        return None
    ulen = b[1]
    if len(b) < 2 + ulen + 1:
        return None
    plen = b[2 + ulen]
    if len(b) < 3 + ulen + plen:
        return None
    return {'ver': b[0], 'ulen': ulen, 'user': b[2:2 + ulen], 'plen': plen,
            'password': b[3 + ulen:3 + ulen + plen], 'rest': b[3 + ulen + plen:]}


def parse_connect(b):
    """RFC 1928 s4: VER CMD RSV ATYP DST.ADDR DST.PORT (network byte order)"""
    if len(b) < 4:
        return None
    atyp = b[3]
    if atyp == 1:
        n, off = 4, 4
    elif atyp == 4:
        n, off = 16, 4
    elif atyp == 3:
        if len(b) < 5:
            return None
        n, off = b[4], 5
    else:
        return None
    if len(b) < off + n + 2:
        return None
    return {'ver': b[0], 'cmd': b[1], 'rsv': b[2], 'atyp': atyp, 'addr': b[off:off + n],
            'port': int.from_bytes(b[off + n:off + n + 2], 'big'), 'rest': b[off + n + 2:]}


# ------------------------------------------------------------------ the property oracle
def has_surrogate(s):
    return any(0xD800 <= ord(ch) < 0xE000 for ch in s)


LABEL_CHARS = set('abcdefghijklmnopqrstuvwxyzABCDEFGHIJKLMNOPQRSTUVWXYZ0123456789-_')


def valid_host_name(name):
    """the property's quantifier "all valid host names up to 253 characters", written from
    C18's text: ignoring one trailing dot, 1-253 characters of dot-separated labels of 1-63
    letters, digits, hyphens or underscores that neither begin nor end with a hyphen and whose
    last label is not all digits"""
    if name.endswith('.'):
        name = name[:-1]
    if not 1 <= len(name) <= 253:
        return False
    labels = name.split('.')
    for lab in labels:
        if not 1 <= len(lab) <= 63 or not set(lab) <= LABEL_CHARS or lab[0] == '-' or lab[-1] == '-':
            return False
    return not all(ch in '0123456789' for ch in labels[-1])


def scope(case, addr_ok=True):
    """'express' | 'inexpress' | None (outside the property's quantifier), with the reason.
    addr_ok: the real NetAddress accepted the destination (a name it refuses is not a
    destination "the client accepts")."""
    proto, host, port, auth = case
    kind = host[0]
    if not 1 <= port <= 65535:
        return None, 'port outside 1..65535'
    if not addr_ok and not (kind == 'n' and valid_host_name(host[1])):
        return None, 'NetAddress refuses the destination'
    if auth is not None:
        used = auth[0] if proto != '5' else auth[0] + auth[1]
        if has_surrogate(used):
            # a str holding a lone surrogate is not Unicode text (it has no UTF-8 form)
            return None, 'lone surrogate in credentials'
    if kind == 'n' and has_surrogate(host[1]):
        return None, 'lone surrogate in the host name'
    if proto == '4':
        if kind != '4':
            return 'inexpress', 'SOCKS4 can only name an IPv4 destination'
    elif proto == '4a':
        if kind in ('6', 'z'):
            return 'inexpress', 'SOCKS4a cannot name an IPv6 destination'
        if kind == '4' and bytes(host[1][:3]) == b'\0\0\0' and host[1][3] != 0:
            return 'inexpress', 'SOCKS4a marker: a SOCKS4a server reads DSTIP 0.0.0.x (x != 0) as "a host name follows"'
        if kind == 'n' and '\0' in host[1]:
            return 'inexpress', 'a NUL-terminated host name field cannot contain NUL'
    elif proto == '5':
        if kind == 'z':
            return 'inexpress', 'zone: RFC 1928 has no field for the zone of a scoped IPv6 address'
        if kind == 'n' and not 1 <= len(host[1].encode()) <= 255:
            return 'inexpress', 'RFC 1928 domain name length not in 1..255'
    if proto in ('4', '4a') and auth is not None and '\0' in auth[0]:
        return 'inexpress', 'a NUL-terminated user id cannot contain NUL'
    if proto == '5' and auth is not None:
        for what, s in (('user name', auth[0]), ('password', auth[1])):
            n = len(s.encode())
            if not 1 <= n <= 255:
                return 'inexpress', f'RFC 1929 {what} length {n} not in 1..255'
    return 'express', ''


def inexpress_key(reason):
    if 'NUL-terminated user id' in reason:
        return 'c16:socks4-nul-userid'
    if 'marker' in reason:
        return 'c16:socks4a-marker-address'
    if 'zone' in reason:
        return 'c16:socks5-scoped-ipv6'
    return 'c16:inexpressible-not-rejected'


def expected_connect(host, port):
    kind, v = host
    if kind == '4':
        return 1, bytes(v)
    if kind in ('6', 'z'):
        return 4, bytes(v)
    return 3, v.encode()


def msgs_of(raw):
    return [r[1] for r in raw if r[0] == 'msg']


def methods_ok(g, auth):
    """RFC 1928 s3 + the property text: 'no authentication' is offered, 'username/password'
    is offered exactly when credentials were given, nothing else is; the order of the list is
    not fixed by the RFC"""
    if g is None or g['ver'] != 5 or g['rest']:
        return False
    want = {0, 2} if auth is not None else {0}
    return set(g['methods']) == want and len(g['methods']) == len(want)


def oracle(mods, case, ctor_exc, raws, light=False, addr_ok=True):
    """Returns (key, why) if the property fails on this trace, else None.
    light: for SOCKS5 `raws` holds only the `05 00` dialogue."""
    proto, host, port, auth = case
    sc_, reason = scope(case, addr_ok)
    if sc_ is None:
        return None
    SOCKSError = mods.socks.SOCKSError
    first = raws[0] if raws else []
    if sc_ == 'inexpress':
        if not addr_ok:
            return None     # refused even earlier (NetAddress): nothing was sent
        sent_first = msgs_of(first)
        if ctor_exc is not None:
            if isinstance(ctor_exc, SOCKSError):
                return None
            return ('c16:inexpressible-wrong-exception',
                    f'{reason}: constructor raised {sc.exc_name(ctor_exc)}, not a SOCKS error')
        if not sent_first and first and first[-1][0] == 'raise' and isinstance(first[-1][1], SOCKSError):
            return None     # refused before the first byte: still "before anything is sent"
        return (inexpress_key(reason),
                f'{reason}, but it was accepted and {len(sent_first)} message(s) were emitted')
    # expressible: must be accepted and byte-exact
    if ctor_exc is not None:
        return 'c16:expressible-rejected', f'constructor raised {sc.exc_name(ctor_exc)}'
    for raw in raws:
        for r in raw:
            if r[0] == 'raise' and not (proto == '5' and not light and raw is raws[-1] and auth is None):
                return 'c16:expressible-rejected', f'next_message raised {sc.exc_name(r[1])}'
    user = auth[0].encode() if auth is not None else b''
    if proto in ('4', '4a'):
        m = msgs_of(first)
        if len(m) != 1:
            return 'c16:socks4-request', f'{len(m)} messages before any reply'
        return check_socks4_request(m[0], proto, host, port, user)
    # SOCKS5
    atyp, addr = expected_connect(host, port)
    want_conn = dict(ver=5, cmd=1, rsv=0, atyp=atyp, addr=addr, port=port, rest=b'')
    for di, raw in enumerate(raws, 1 if light else 0):
        m = msgs_of(raw)
        if not m:
            return 'c16:socks5-greeting', 'no greeting'
        g = parse_greeting(m[0])
        if not methods_ok(g, auth):
            return ('c16:socks5-greeting',
                    f'server parses greeting {g}, expected methods {"{0, 2}" if auth is not None else "{0}"}')
        if di == 0:
            if len(m) != 1:
                return 'c16:socks5-greeting', 'more than the greeting sent before any reply'
        elif di == 1:       # proxy selected "no authentication"
            if len(m) != 2:
                return 'c16:socks5-auth', f'method 0 selected: {len(m)} messages sent, expected greeting + CONNECT'
            c = parse_connect(m[1])
            if c != want_conn:
                return 'c16:socks5-connect', f'server parses CONNECT {c}, expected {want_conn}'
        else:               # proxy selected "username/password"
            if auth is None:
                if len(m) != 1:
                    return 'c16:socks5-auth', 'method 2 selected without credentials, yet something was sent'
                continue
            if len(m) != 3:
                return 'c16:socks5-auth', f'method 2 selected: {len(m)} messages sent, expected 3'
            u = parse_userpass(m[1])
            want_u = dict(ver=1, ulen=len(user), user=user, plen=len(auth[1].encode()),
                          password=auth[1].encode(), rest=b'')
            if u != want_u:
                return 'c16:socks5-auth', f'server parses credentials {u}, expected {want_u}'
            c = parse_connect(m[2])
            if c != want_conn:
                return 'c16:socks5-connect', f'server parses CONNECT {c}, expected {want_conn}'
    return None


def check_socks4_request(msg, proto, host, port, user):
    """a SOCKS4 (SOCKS4a: with the 4a extension) server must read exactly the request asked for"""
    p = parse_socks4_request(msg, ext_4a=(proto == '4a'))
    if p is None:
        return 'c16:socks4-request', f'a {"SOCKS4a" if proto == "4a" else "SOCKS4"} server cannot parse the request'
    if host[0] == '4':
        want = dict(vn=4, cd=1, port=port, ip=bytes(host[1]), user=user, host=None, rest=b'')
    else:
        want = dict(vn=4, cd=1, port=port, ip=b'\0\0\0\1', user=user, host=host[1].encode(), rest=b'')
    if p != want:
        return 'c16:socks4-request', f'server parses {p}, expected {want}'
    return None


def check_connection(case, conn):
    """Property oracle for ONE proxy connection opened by create_connection for `case`: what the
    proxy received on it (conn.received) must be the protocol's CONNECT exchange for exactly
    that destination and those credentials, from its first byte, as far as the proxy's replies
    on this connection (conn.stream) allowed it to go.  Returns (key, why) or None."""
    proto, host, port, auth = case
    data = conn.received
    key = 'c16:proxy-connection-bytes'
    if not data:
        if conn.recvs:
            return key, 'the client asked this connection for a reply without having sent anything on it'
        return None
    user = auth[0].encode() if auth is not None else b''
    if proto in ('4', '4a'):
        bad = check_socks4_request(data, proto, host, port, user)
        return (key, 'connection received ' + data.hex() + ': ' + bad[1]) if bad else None
    g = parse_greeting(data)
    if g is None:
        return key, f'connection received {data.hex()}: no greeting at the start'
    rest, g['rest'] = g['rest'], b''
    if not methods_ok(g, auth):
        return key, f'connection received {data.hex()}: greeting parses to {g}'
    if not rest:
        return None
    offered = (0, 2) if auth is not None else (0,)
    st = conn.stream
    sel = st[1] if len(st) >= 2 and st[0] == 5 and st[1] in offered else None
    def delivered_when_byte(offset):
        """reply bytes the client had been given when it sent the byte at `offset`"""
        cum = 0
        for m, pos in conn.sent:
            if cum + len(m) > offset:
                return pos
            cum += len(m)
        return len(st)
    glen = len(data) - len(rest)
    if sel is None:
        return key, (f'connection received {rest.hex()} after the greeting although the proxy had not '
                     f'selected an offered method (replies {st[:2].hex()})')
    if delivered_when_byte(glen) < 2:
        return key, (f'connection received {rest.hex()} after the greeting before this connection\'s method '
                     f'selection had been delivered to the client ({delivered_when_byte(glen)} reply bytes read)')
    if sel == 2:
        u = parse_userpass(rest)
        want_u = dict(ver=1, ulen=len(user), user=user, plen=len(auth[1].encode()),
                      password=auth[1].encode())
        if u is None:
            return key, f'method 2 selected: {rest.hex()} is not an RFC 1929 message'
        rest = u.pop('rest')
        if u != want_u:
            return key, f'server parses credentials {u}, expected {want_u}'
        if not rest:
            return None
        if st[2:4] != b'\x01\x00' or delivered_when_byte(len(data) - len(rest)) < 4:
            return key, 'CONNECT sent although the proxy had not accepted the credentials'
    atyp, addr = expected_connect(host, port)
    want_conn = dict(ver=5, cmd=1, rsv=0, atyp=atyp, addr=addr, port=port, rest=b'')
    c = parse_connect(rest)
    if c != want_conn:
        return key, f'server parses CONNECT {c}, expected {want_conn} (connection received {data.hex()})'
    return None


# ------------------------------------------------------------------ implementation side
DIALOGUES5 = ([], [b'\x05\x00'], [b'\x05\x02', b'\x01\x00'])


def impl_case(mods, case, stub=False, light=False):
    """Returns (text in the driver's output format, ctor exception, raw dialogues, addr_ok).
    light: SOCKS5 runs only the `05 00` dialogue (greeting + CONNECT).
    addr_ok False: the real NetAddress refused the destination (nothing reached the classes)."""
    proto, host, port, auth = case
    dialogues = (DIALOGUES5[1:2] if light else DIALOGUES5) if proto == '5' else ([],)
    outs, raws = [], []
    try:
        addr = sc.make_address(mods, host, port, stub)
    except Exception as e:          # observed: the destination is not one the client accepts
        return 'A:' + sc.exc_name(e), e, [], False
    for chunks in dialogues:
        try:
            client = mods.cls[proto](addr, sc.make_auth(mods, auth))
        except Exception as e:     # observed, classified by the oracle
            return 'E:' + sc.exc_name(e), e, [], True
        out, raw = sc.drive_object(mods, client, chunks)
        outs.append(' '.join(out))
        raws.append(raw)
    return ' | '.join(outs), None, raws, True


def random_auth_check(mods, res):
    """SOCKSRandomAuth (fresh 64-hex-digit user name and password on every access): judged by
    the server-side parsers only - the values are random, so there is no model line."""
    hexd = set(b'0123456789abcdef')
    n = 0
    for proto in ('4', '4a', '5'):
        for host in (V4, NAME, V6):
            if scope((proto, host, 80, None))[0] != 'express':
                continue
            for port in (1, 80, 65535):
                try:
                    addr = sc.make_address(mods, host, port)
                    dialogs = DIALOGUES5 if proto == '5' else ([],)
                    raws = [sc.drive_object(mods, mods.cls[proto](addr, mods.socks.SOCKSRandomAuth()), ch)[1]
                            for ch in dialogs]
                except Exception as e:      # observed
                    res.violation('c16:expressible-rejected', {'random_auth': proto, 'host': sc.enc_host(host)},
                                  f'SOCKSRandomAuth: {sc.exc_name(e)}')
                    continue
                n += 1
                bad = None
                if proto != '5':
                    m = msgs_of(raws[0])
                    p4 = parse_socks4_request(m[0], ext_4a=(proto == '4a')) if len(m) == 1 else None
                    if not p4 or p4['rest'] or p4['port'] != port or len(p4['user']) != 64 \
                            or not set(p4['user']) <= hexd:
                        bad = f'SOCKS4 request with random auth parses to {p4}'
                else:
                    m = msgs_of(raws[2])
                    u = parse_userpass(m[1]) if len(m) == 3 else None
                    g = parse_greeting(m[0]) if m else None
                    if not u or u['rest'] or u['ver'] != 1 or len(u['user']) != 64 or len(u['password']) != 64 \
                            or not set(u['user'] + u['password']) <= hexd or not g or g['methods'] != [0, 2]:
                        bad = f'random auth dialogue parses to {g} / {u}'
                    elif len(msgs_of(raws[1])) != 2:
                        bad = 'credentials sent although method 0 was selected'
                if bad:
                    res.violation('c16:random-auth', {'random_auth': proto, 'host': sc.enc_host(host), 'port': port}, bad)
    res['scopes']['random_auth_objects'] = n
    res['evaluations'] += n


# ------------------------------------------------------------------ case generation
V4 = ('4', bytes([1, 2, 3, 4]))
V6 = ('6', bytes(range(16)))
NAME = ('n', 'example.com')
CH = {1: 'a', 2: 'é', 3: '€', 4: '\U0001F600'}
ADDR4 = [bytes(x) for x in ([0, 0, 0, 0], [0, 0, 0, 1], [0, 0, 0, 255], [0, 0, 1, 0], [1, 0, 0, 0],
                            [127, 0, 0, 1], [255, 255, 255, 255], [8, 8, 8, 8], [0, 1, 0, 1],
                            [10, 0, 0, 0], [192, 168, 0, 255], [1, 2, 3, 4], [4, 3, 2, 1])]
ZONED6 = [b'\xfe\x80' + bytes(13) + b'\1', b'\xfe\x80' + bytes(6) + bytes(range(8)), bytes(range(16)),
          b'\xff\x02' + bytes(13) + b'\1']
ADDR6 = [bytes(16), bytes(15) + b'\1', b'\xff' * 16, bytes(10) + b'\xff\xff' + bytes([1, 2, 3, 4]),
         bytes(range(16)), bytes(range(240, 256)), b'\x20\x01\x0d\xb8' + bytes(12), b'\1' + bytes(15)]


def name_of_length(n, rng=None):
    """a valid host name with exactly n characters (labels of at most 63)"""
    labels, left = [], n
    while left > 0:
        ln = min(63, left)
        if left - ln == 1:      # would leave a lone '.', shorten this label
            ln -= 1
        labels.append(ln)
        left -= ln + 1
    alpha = 'abcdefghijklmnopqrstuvwxyzABCDEFGHIJKLMNOPQRSTUVWXYZ0123456789_'
    out = []
    for ln in labels:
        if rng is None:
            out.append(('x' * ln))
        else:
            out.append(''.join(rng.choice(alpha) for _ in range(ln)))
    s = '.'.join(out)
    if s[-1].isdigit():
        s = s[:-1] + 'z'
    assert len(s) == n, (n, len(s))
    return s


def strings_of_bytelen(n):
    """strings whose UTF-8 encoding has exactly n bytes, with the multi-byte character at the
    end (so it straddles a length boundary), at the start, or everywhere"""
    out = []
    if n == 0:
        return ['']
    out.append('a' * n)
    for w in (2, 3, 4):
        if n >= w:
            out.append('a' * (n - w) + CH[w])
            out.append(CH[w] + 'a' * (n - w))
            if n % w == 0:
                out.append(CH[w] * (n // w))
    return out


def port_cases(hosts_by_proto, step=1):
    for port in range(1, 65536, step):
        for proto, hosts in hosts_by_proto.items():
            yield (proto, hosts[port % len(hosts)], port, None)


def credential_cases(lengths):
    for n in lengths:
        for s in strings_of_bytelen(n):
            for proto in ('4', '4a', '5'):
                yield (proto, V4, 80, (s, 'pw'))
            yield ('5', NAME, 443, ('user', s))
            yield ('5', V6, 1, (s, s))


def corner_cases():
    for proto in ('4', '4a', '5'):
        for a in ADDR4:
            for port in (1, 80, 255, 256, 257, 65280, 65535):
                yield (proto, ('4', a), port, None)
                yield (proto, ('4', a), port, ('u', 'p'))
        for a in ADDR6:
            yield (proto, ('6', a), 443, None)
            yield (proto, ('6', a), 65535, ('u', 'p'))
        # zone-scoped IPv6 (fe80::1%eth0 and friends): the zone has no place in any request
        for a in ZONED6:
            yield (proto, ('z', a), 443, None)
            yield (proto, ('z', a), 80, ('u', 'p'))
        # every SOCKS4a marker address 0.0.0.x and its neighbours
        for x in range(256):
            yield (proto, ('4', bytes([0, 0, 0, x])), 80, None)
        for a in ([0, 0, 1, 1], [0, 1, 0, 0], [1, 0, 0, 1], [0, 0, 0, 7]):
            yield (proto, ('4', bytes(a)), 1080, ('u', 'p'))
    # NUL / odd characters in credentials
    for proto in ('4', '4a', '5'):
        for host in (V4, NAME, V6):
            for u in ('\0', 'a\0b', '\0a', 'a\0', 'a\0\0', 'a b', 'a\nb', '\x7f', '\x80', '￿',
                      '\U0010ffff', '\ud800', 'a\udfffb', ''):
                yield (proto, host, 80, (u, 'p'))
                yield (proto, host, 80, ('u', u))


def name_cases(rng):
    for n in range(1, 254):
        for proto in ('4a', '5', '4'):
            yield (proto, ('n', name_of_length(n)), 80, None)
        yield ('5', ('n', name_of_length(n, rng)), 1 + rng.randrange(65535), ('u', 'p'))
        yield ('4a', ('n', name_of_length(n, rng)), 1 + rng.randrange(65535), ('u' * (n % 7), ''))
        # trailing dot: up to 254 characters
        yield ('5', ('n', name_of_length(n) + '.'), 80, None)
        yield ('4a', ('n', name_of_length(n) + '.'), 80, None)


def random_case(rng):
    proto = rng.choice(('4', '4a', '5', '5'))
    r = rng.random()
    if r < 0.4:
        host = ('4', bytes(rng.choice((0, 0, 1, 127, 255, rng.randrange(256))) for _ in range(4)))
    elif r < 0.6:
        host = ('6' if rng.random() < 0.85 else 'z',
                bytes(rng.choice((0, 0, 255, rng.randrange(256))) for _ in range(16)))
    else:
        host = ('n', name_of_length(rng.choice((1, 2, 3, 10, 63, 64, 65, 127, 252, 253,
                                                 rng.randint(1, 253))), rng))
    port = rng.choice((1, 255, 256, 65535, rng.randint(1, 65535), rng.randint(1, 65535)))
    r = rng.random()
    if r < 0.3:
        auth = None
    else:
        def cred():
            k = rng.random()
            target = rng.choice((0, 1, 2, 254, 255, 256, 257, 300, rng.randint(0, 300), rng.randint(1, 40)))
            s, n = [], 0
            while n < target:
                w = rng.choice((1, 1, 1, 2, 3, 4))
                if n + w > target:
                    w = 1
                if w == 1:
                    s.append(rng.choice('abcXYZ019 _-@:/\x7f'))
                elif w == 2:
                    s.append(chr(rng.randint(0x80, 0x7ff)))
                elif w == 3:
                    c = rng.randint(0x800, 0xffff)
                    s.append(chr(c if not 0xD800 <= c < 0xE000 else 0x20ac))
                else:
                    s.append(chr(rng.randint(0x10000, 0x10ffff)))
                n += w
            s = ''.join(s)
            if k < 0.04 and s:
                i = rng.randrange(len(s))
                s = s[:i] + '\0' + s[i + 1:]
            elif k < 0.06 and s:
                i = rng.randrange(len(s))
                s = s[:i] + chr(rng.randint(0xD800, 0xDFFF)) + s[i + 1:]
            return s
        auth = (cred(), cred())
    return (proto, host, port, auth)


def malformed_cases():
    """inputs only a stub address object can deliver (outside the property's quantifier: the
    model must still agree with the code on the Python failure mode)"""
    for proto in ('4', '4a', '5'):
        yield (proto, V4, 0, None)
        yield (proto, V4, 65536, None)
        yield (proto, ('n', 'a' * 255), 80, None)
        yield (proto, ('n', 'a' * 256), 80, None)
        yield (proto, ('n', 'é' * 128), 80, None)
        yield (proto, ('n', 'a\0b'), 80, None)
        yield (proto, ('n', 'a\ud800'), 80, ('u', 'p'))
        yield (proto, ('n', 'K' * 100), 80, None)


def refused_name_cases():
    """host names outside C18's grammar given to the REAL NetAddress (no stub): it must refuse
    them, so they never reach the protocol classes; if a regression lets one through, the
    oracle applies in full (the destination is then one "the client accepts")"""
    lab = 'x' * 63
    n253 = '.'.join([lab, lab, lab, 'y' * 61])
    names = ['a\0b', '\0', 'a.b\0', 'a\0.com', '\xe9.com', 'a.\u212a', 'ſ.com', 'a' * 64 + '.com',
             n253 + 'y', n253 + 'y.', n253 + '.y', 'a..b', '-a.com', 'a-.com', 'a b.com', '', '.',
             'a\n', 'a.com\n', '1.2.3.4.', '300.1.1.1', 'x' * 255, 'x' * 300, '\ud800.com',
             'a\x7f.com', 'a/b', 'a:b']
    for proto in ('4', '4a', '5'):
        for n in names:
            yield (proto, ('n', n), 80, None)
            yield (proto, ('n', n), 443, ('u', 'p'))
        # valid boundary names go through
        for n in (n253, n253 + '.', 'a', 'a.', '_x.y-z.w0'):
            yield (proto, ('n', n), 80, None)


def tuple_auth_check(mods, ctx, res):
    """credentials given as a plain tuple instead of a SOCKSUserAuth (assumption listed in
    props/C16.json: such an object is "no credentials"): the classes must behave exactly as
    with `None` - model line with auth `-`; judged by the oracle as "no credentials given" """
    cases, texts = [], []
    for proto in ('4', '4a', '5'):
        for host in (V4, NAME, V6):
            for tup in (('u', 'p'), ('a\0b', ''), ('', ''), ['u', 'p']):
                case = (proto, host, 80, None)
                try:
                    addr = sc.make_address(mods, host, 80)
                    dialogs = DIALOGUES5 if proto == '5' else ([],)
                    outs, raws = [], []
                    for ch in dialogs:
                        o, r = sc.drive_object(mods, mods.cls[proto](addr, tup), ch)
                        outs.append(' '.join(o))
                        raws.append(r)
                    text, exc = ' | '.join(outs), None
                except Exception as e:      # observed
                    text, exc, raws = 'E:' + sc.exc_name(e), e, []
                bad = oracle(mods, case, exc, raws)
                if bad:
                    res.violation(bad[0], dict(sc.case_json(case), tuple_auth=list(tup)), bad[1], impl=text[:300])
                cases.append(case)
                texts.append(text)
    model = ctx.model([sc.enc_case(c) for c in cases])
    for c, t, m in zip(cases, texts, model or texts):
        if dialogue_observable(m) != dialogue_observable(t):
            res.disagreement(dict(sc.case_json(c), tuple_auth=True), t[:400], m[:400])
    res['scopes']['tuple_auth_objects'] = len(cases)
    res['evaluations'] += len(cases)


# ------------------------------------------------------------------ through create_connection
GRANT = {'4': bytes([0, 90, 0, 0, 0, 0, 0, 0]), '4a': bytes([0, 90, 0, 0, 0, 0, 0, 0]),
         '5': bytes([5, 0, 5, 0, 0, 1, 0, 0, 0, 0, 0, 0])}
GRANT5A = bytes([5, 2, 1, 0, 5, 0, 0, 1, 0, 0, 0, 0, 0, 0])


def attempt_pool(proto, auth):
    """what one address of the proxy may meet: grants, failures at every stage of the handshake
    (so that a protocol object carried over to the next address would be in every possible
    state), socket-level failures"""
    if proto != '5':
        g = GRANT[proto]
        streams = [g, g[:1], g[:4], b'', bytes([0, 91]) + g[2:], bytes([4, 90]) + g[2:], g + b'\x16\x03']
    else:
        g = GRANT['5']
        streams = [g, b'', b'\x05', b'\x05\x00', b'\x05\x00\x05', g[:7], b'\x05\xff', b'\x04\x00',
                   b'\x05\x00\x05\x05\x00\x01' + bytes(6), g + b'\x16']
        if auth is not None:
            streams += [GRANT5A, b'\x05\x02', b'\x05\x02\x01', b'\x05\x02\x01\x00', b'\x05\x02\x01\x01',
                        GRANT5A[:9]]
    return [('x',), ('s',)] + [('t', st) for st in streams] + [('p', streams[0])]


def enc_attempt(a):
    if a[0] in 'xs':
        return a[0]
    return ('p' if a[0] == 'p' else '') + (a[1].hex() or '-')


def world_attempt(a, rng=None):
    if a[0] in 'xs':
        return a
    segs = [] if rng is None else [rng.randint(1, 4) for _ in range(rng.randint(0, 3))]
    return (a[0], a[1], segs)


def px_cases(deep, rng):
    """(case, attempts): one create_connection call, the proxy's address resolving to 1..3
    entries; the last entry grants in most cases so that fall-back after every kind of
    failure is exercised"""
    dests = {'4': [V4, ('4', bytes([0, 0, 0, 9])), V6], '4a': [NAME, V4, ('4', bytes([0, 0, 0, 9])), V6],
             '5': [NAME, V4, V6, ('z', ZONED6[0])]}
    for proto in ('4', '4a', '5'):
        for auth in (None, ('user', 'pw')):
            pool = attempt_pool(proto, auth)
            grant = ('t', GRANT5A if (proto == '5' and auth) else GRANT[proto])
            for di, host in enumerate(dests[proto]):
                port = 1000 + di
                for a in pool:
                    yield (proto, host, port, auth), [a]
                    yield (proto, host, port, auth), [a, grant]
                    if di == 0 or deep:
                        for b in pool:
                            yield (proto, host, port, auth), [a, b]
                            if deep or rng.random() < 0.08:
                                yield (proto, host, port, auth), [a, b, grant]


def impl_px(mods, case, attempts, rng=None):
    proto, host, port, auth = case
    w = sw.World()
    w.add_call(0, [[world_attempt(a, rng) for a in attempts]])
    proxy = sw.make_proxy(mods, proto, auth)
    with sw.patched(mods, w):
        with sw.watchdog(5.0):
            r = sw.run_one(w, 0, proxy.create_connection(sw.Factory(), sc.host_string(host), port))
    return r, w


def px_text(result, call, group=0):
    """same format as the driver's `px` output"""
    tried = max([c.index + 1 for c in call.conns if c.group == group] +
                [call.tried.get(group, 0)])
    by_index = {c.index: c for c in call.conns if c.group == group}
    parts = [(by_index[i].received.hex() or '-') if i in by_index else '.' for i in range(tried)]
    name = sw.outcome_name(result, _mods.socks if _mods else None)
    return ' | '.join([('connected' if name == 'ok' else 'E:' + name)] + parts)


def oracle_px(mods, case, result, conns):
    """create_connection for one destination: every connection made must carry the exchange
    for that destination from its first byte; an inexpressible destination must be refused with
    a SOCKS error and no connection may have received a byte"""
    sc_, reason = scope(case)
    if sc_ is None:
        return None
    if sc_ == 'inexpress':
        got = [c for c in conns if c.received]
        if got:
            return (inexpress_key(reason), f'{reason}, but the proxy received {got[0].received.hex()}')
        if result[0] == 'ok' or not isinstance(result[1], mods.socks.SOCKSError):
            return ('c16:inexpressible-wrong-exception',
                    f'{reason}: create_connection gave {sw.outcome_name(result, mods.socks)}, not a SOCKS error')
        return None
    for c in conns:
        bad = check_connection(case, c)
        if bad:
            return bad
    if result[0] == 'ok':
        last = conns[-1] if conns else None
        if last is None or not last.received:
            return 'c16:proxy-connection-bytes', 'create_connection succeeded without sending a request'
    return None


def cc_cases(deep, rng):
    """two (or three) concurrent create_connection calls on ONE SOCKSProxy object, different
    destinations, interleaved at the awaits of the (fake) loop by a schedule"""
    for proto in ('5', '4a', '4'):
        for auth in (None, ('user', 'pw')):
            if proto == '4':
                dests = [(('4', bytes([10, 0, 0, 1])), 1001), (('4', bytes([10, 0, 0, 2])), 1002),
                         (('4', bytes([10, 0, 0, 3])), 1003)]
            else:
                dests = [(('n', 'one.example'), 1001), (('n', 'two.example'), 1002), (('4', bytes([10, 0, 0, 3])), 1003)]
            g = ('t', GRANT5A if (proto == '5' and auth) else GRANT[proto])
            fail = ('t', b'\x05\x00\x05' if proto == '5' else b'\x00')
            plans = [[[g], [g]], [[fail, g], [g]], [[g], [('x',), g]], [[fail, g], [fail, g]], [[g], [g], [g]]]
            for plan in plans:
                n = len(plan)
                scheds = [[i % n for i in range(60)], [0] * 2 + [1] * 3 + [0, 1] * 30,
                          [1] * 4 + [0] * 4 + [1, 0] * 30, []]
                for _ in range(6 if deep else 2):
                    scheds.append([rng.randrange(n) for _ in range(80)])
                for sched in scheds:
                    yield proto, auth, dests[:n], plan, sched


def impl_cc(mods, proto, auth, dests, plan, sched):
    w = sw.World(yields=True)
    proxy = sw.make_proxy(mods, proto, auth)
    coros = {}
    with sw.patched(mods, w):
        for i, ((host, port), attempts) in enumerate(zip(dests, plan)):
            w.add_call(i, [[world_attempt(a) for a in attempts]])
            coros[i] = proxy.create_connection(sw.Factory(), sc.host_string(host), port)
        with sw.watchdog(5.0):
            sw.run_interleaved(w, coros, sched)
    return w


def cs_cases(deep, rng):
    """concurrent handshakes with SEGMENTED replies: call A is parked in a recv with part of a
    reply already handed to its protocol object while call B runs - on the same SOCKSProxy
    object and on two different ones (any state shared between protocol objects, proxy objects
    or at class level shows up as bytes on the wrong connection).  The bytes A holds back are
    chosen to look like a method selection / status (`05 00`, `05 02`, `01 00`): the ordinary
    start of an RFC 1928 reply, and bound addresses / ports such as 10.5.2.7 and 1282.
    A call = (proto, auth, destination, port, reply stream, segment lengths)."""
    creds = ('user', 'pass')
    dest_a, dest_b = (('n', 'one.example'), 1001), (('4', bytes([10, 0, 0, 2])), 1002)
    replies = [bytes([5, 0, 0, 1, 10, 5, 2, 7, 0, 80]), bytes([5, 0, 0, 1, 10, 5, 0, 7, 5, 2]),
               bytes([5, 0, 0, 3, 4, 5, 2, 1, 0, 5, 0]), bytes([5, 0, 0, 1, 0, 0, 0, 0, 0, 0])]
    for auth_a in (None, creds):
        pre_a = b'\x05\x02\x01\x00' if auth_a else b'\x05\x00'
        for reply in (replies if deep else replies[:3]):
            stream_a = pre_a + reply
            cuts = range(len(pre_a) + 1, len(stream_a))
            for cut in cuts:
                for extra in ((), (2,)):
                    segs_a = [len(pre_a), cut - len(pre_a)] + list(extra)
                    for auth_b, stream_b in ((creds, GRANT5A), (creds, GRANT['5']), (None, GRANT['5'])):
                        for shared in (True, False):
                            if shared and auth_a != auth_b:
                                continue        # one proxy object has one set of credentials
                            calls = [('5', auth_a) + dest_a + (stream_a, segs_a),
                                     ('5', auth_b) + dest_b + (stream_b, [2])]
                            ks = range(3, 16) if deep else (5, 7, 8, 9, 10, 11, 13)
                            for k in ks:
                                yield calls, shared, [0] * k + [1] * 40
                            yield calls, shared, [rng.randrange(2) for _ in range(60)]
    # SOCKS4a next to SOCKS5 (the classes share a base class), and two SOCKS4 calls
    for k in (4, 5, 6, 7, 8):
        yield ([('4a', None) + dest_a + (GRANT['4a'], [3, 2]), ('5', creds) + dest_b + (GRANT5A, [2])],
               False, [0] * k + [1] * 40)
        yield ([('5', None) + dest_a + (b'\x05\x00' + replies[0], [2, 2, 3]), ('4', None) + dest_b + (GRANT['4'], [1])],
               False, [0] * (k + 2) + [1] * 40)


def impl_cs(mods, calls, shared, sched):
    w = sw.World(yields=True)
    coros, proxies = {}, {}
    with sw.patched(mods, w):
        for i, (proto, auth, host, port, stream, segs) in enumerate(calls):
            key = (proto, auth) if shared else i
            if key not in proxies:
                proxies[key] = sw.make_proxy(mods, proto, auth)
            w.add_call(i, [[('t', stream, list(segs))]])
            coros[i] = proxies[key].create_connection(sw.Factory(), sc.host_string(host), port)
        with sw.watchdog(5.0):
            sw.run_interleaved(w, coros, sched)
    return w


def rs_cases():
    """create_connection(resolve=True): the destination resolves to several addresses, each is
    asked of the proxy in turn (`_connect`); every connection must carry the address it was
    opened for"""
    for proto in ('5', '4'):
        g = ('t', GRANT[proto])
        fail = ('t', b'\x05\x00\x05\x01\x00\x01' + bytes(6) if proto == '5' else bytes([0, 91]) + bytes(6))
        cut = ('t', b'\x05\x00' if proto == '5' else b'\x00\x5a')
        for plan in ([[g]], [[fail], [g]], [[cut], [g]], [[('x',)], [fail], [g]], [[fail, cut], [cut, g]],
                     [[fail], [cut]], [[fail], [fail]]):
            yield proto, plan


def impl_rs(mods, proto, plan):
    import socket
    infos = [(socket.AF_INET, socket.SOCK_STREAM, 6, '', (f'10.1.0.{i + 1}', 2000 + i)) for i in range(len(plan))]
    w = sw.World(dest_infos={'dest.test': infos})
    w.add_call(0, [[world_attempt(a) for a in g] for g in plan])
    proxy = sw.make_proxy(mods, proto, None)
    with sw.patched(mods, w):
        with sw.watchdog(5.0):
            r = sw.run_one(w, 0, proxy.create_connection(sw.Factory(), 'dest.test', 80, resolve=True))
    dests = [(('4', bytes([10, 1, 0, i + 1])), 2000 + i) for i in range(len(plan))]
    return r, w, dests


def corpus_cases(verif):
    """-> (object cases, px cases); a px line is `px <case> <attempt> ...`"""
    path = os.path.join(verif, 'corpus', 'C16.txt')
    out, px = [], []
    if os.path.exists(path):
        for line in open(path):
            line = line.split('#')[0].strip()
            if line.startswith('px '):
                toks = line.split()
                px.append((sc.dec_case(' '.join(toks[1:5])), [dec_attempt(t) for t in toks[5:]]))
            elif line:
                out.append(sc.dec_case(line))
    return out, px


# ------------------------------------------------------------------ evaluation
_mods = None


def _init(repo):
    global _mods
    if _mods is None or _mods.repo != repo:
        _mods = sc.Mods(repo)
        _mods.repo = repo


def _impl_batch(args):
    cases, stub, light = args
    res = []
    for case in cases:
        text, ctor_exc, raws, addr_ok = impl_case(_mods, case, stub, light)
        bad = oracle(_mods, case, ctor_exc, raws, light, addr_ok) if not stub else None
        sc_ = scope(case, addr_ok)[0]
        res.append((text, bad, ('stub' if stub else 'netaddress_refused' if (sc_ is None and not addr_ok)
                                else sc_)))
    return res


def run_impl(ctx, cases, stub, light=False):
    n = len(cases)
    if n < 30000 or not ctx.deep:
        _init(ctx.repo)
        return _impl_batch((cases, stub, light))
    nproc = min(8, os.cpu_count() or 1)
    size = max(5000, n // (nproc * 3))
    jobs = [(cases[i:i + size], stub, light) for i in range(0, n, size)]
    with Pool(nproc, initializer=_init, initargs=(ctx.repo,)) as pool:
        parts = pool.map(_impl_batch, jobs)
    return [r for p in parts for r in p]


def evaluate(ctx, cases, res, scope_name, stub=False, light=False):
    cases = list(cases)
    outs = run_impl(ctx, cases, stub, light)
    model = ctx.model([sc.enc_case(c) + (' d1' if light else '') for c in cases])
    for i, (case, (text, bad, sc_)) in enumerate(zip(cases, outs)):
        if bad:
            res.violation(bad[0], sc.case_json(case), bad[1], impl=text[:300])
        # a destination the real NetAddress refuses never reaches the modelled classes
        if model is not None and sc_ != 'netaddress_refused':
            if dialogue_observable(model[i]) != dialogue_observable(text):
                res.disagreement(sc.case_json(case), text[:400], model[i][:400], stub=stub)
            res.count('need_counts_as_model' if model[i] == text else 'need_counts_differ')
        res.count(f'scope_{sc_}')
        res.count(f'proto_{case[0]}')
        res.count(f'host_{case[1][0]}')
        res.count('with_credentials', case[3] is not None)
        if text.startswith('E:'):
            res.count('ctor_' + text[2:])
        if case[3] is not None:
            for s in case[3]:
                n = len(s.encode('utf-8', 'surrogatepass'))
                if n in (0, 1, 254, 255, 256, 257):
                    res.count(f'cred_bytelen_{n}')
        if sc_ in ('express', 'inexpress'):
            res.nontrivial(sc.enc_case(case))
    res['evaluations'] += len(cases)
    res['scopes'][scope_name] = res['scopes'].get(scope_name, 0) + len(cases)
    return outs


def dialogue_observable(text):
    """messages / None / exceptions of each dialogue; NeedData counts are C17's business (and
    even there an implementation choice)"""
    return [sc.observable_tokens(d.split()) for d in text.split(' | ')]


def px_json(case, attempts):
    return {'op': 'px', 'line': sc.enc_case(case), 'attempts': [enc_attempt(a) for a in attempts]}


def eval_px(ctx, cases, res, scope_name, rng=None):
    """one create_connection call each: per-connection bytes and the result vs the model's
    `px`; oracle per connection"""
    cases = list(cases)
    _init(ctx.repo)
    texts = []
    for case, attempts in cases:
        r, w = impl_px(_mods, case, attempts, rng)
        call = w.calls[0]
        text = px_text(r, call)
        texts.append(text)
        bad = oracle_px(_mods, case, r, call.conns)
        if bad:
            res.violation(bad[0], px_json(case, attempts), bad[1], impl=text[:300])
        res.count('px_' + text.split(' | ')[0])
        res.count('px_connections', len(call.conns))
        res.count('px_fallback_after_talking', sum(1 for c in call.conns[:-1] if c.received))
        if len(call.conns) > 1:
            res.nontrivial(('px', sc.enc_case(case), tuple(enc_attempt(a) for a in attempts)))
    model = ctx.model(['px ' + sc.enc_case(c) + ' ' + ' '.join(enc_attempt(a) for a in at)
                       for c, at in cases])
    for (case, attempts), t, m in zip(cases, texts, model or texts):
        if m != t:
            res.disagreement(px_json(case, attempts), t[:400], m[:400])
    res['evaluations'] += len(cases)
    res['scopes'][scope_name] = res['scopes'].get(scope_name, 0) + len(cases)


def eval_cc(ctx, cases, res, scope_name):
    """concurrent calls on one proxy object: each call's connections must carry that call's
    destination; per call the result and bytes equal the model's (sequential) `px`"""
    cases = list(cases)
    _init(ctx.repo)
    lines, texts, metas = [], [], []
    for proto, auth, dests, plan, sched in cases:
        w = impl_cc(_mods, proto, auth, dests, plan, sched)
        cj = {'op': 'cc', 'proto': proto, 'auth': list(auth) if auth else None,
              'dests': [[sc.enc_host(h), p] for h, p in dests],
              'plan': [[enc_attempt(a) for a in g] for g in plan], 'schedule': sched}
        for i, ((host, port), attempts) in enumerate(zip(dests, plan)):
            case = (proto, host, port, auth)
            call = w.calls[i]
            bad = oracle_px(_mods, case, call.result or ('exc', sc.Livelock()), call.conns)
            text = px_text(call.result, call)
            if bad:
                res.violation(bad[0], cj, f'call {i} ({sc.enc_host(host)}:{port}): {bad[1]}', impl=text[:300])
            lines.append('px ' + sc.enc_case(case) + ' ' + ' '.join(enc_attempt(a) for a in attempts))
            texts.append(text)
            metas.append((cj, i))
        res.count('cc_calls', len(dests))
        res.nontrivial(('cc', proto, auth is not None, len(dests), tuple(sched[:12])))
    model = ctx.model(lines)
    for (cj, i), t, m in zip(metas, texts, model or texts):
        if m != t:
            res.disagreement(dict(cj, call=i), t[:400], m[:400])
    res['evaluations'] += len(cases)
    res['scopes'][scope_name] = res['scopes'].get(scope_name, 0) + len(cases)


def cs_json(calls, shared, sched):
    return {'op': 'cs', 'shared_proxy': shared, 'schedule': sched,
            'calls': [{'proto': pr, 'auth': list(au) if au else None, 'host': sc.enc_host(h), 'port': po,
                       'stream': st.hex(), 'segments': list(sg)} for pr, au, h, po, st, sg in calls]}


def eval_cs(ctx, cases, res, scope_name):
    """concurrent calls with segmented replies (one proxy object or several): the bytes each
    proxy connection received are judged for the call that opened it; per call, result and
    bytes equal the model's sequential `px` (the model has no shared state at all)"""
    cases = list(cases)
    _init(ctx.repo)
    lines, texts, metas = [], [], []
    for calls, shared, sched in cases:
        w = impl_cs(_mods, calls, shared, sched)
        cj = None
        parked = False
        for i, (proto, auth, host, port, stream, segs) in enumerate(calls):
            case = (proto, host, port, auth)
            call = w.calls[i]
            bad = oracle_px(_mods, case, call.result or ('exc', sc.Livelock()), call.conns)
            text = px_text(call.result, call)
            if bad:
                cj = cj or cs_json(calls, shared, sched)
                res.violation(bad[0], cj, f'call {i} ({sc.enc_host(host)}:{port}): {bad[1]}', impl=text[:300])
            lines.append('px ' + sc.enc_case(case) + ' ' + (stream.hex() or '-'))
            texts.append(text)
            metas.append((calls, shared, sched, i))
            parked = parked or any(0 < n < k for c in call.conns for k, n in c.recvs)
        res.count('cs_calls', len(calls))
        res.count('cs_with_partial_recv', parked)
        res.nontrivial(('cs', shared, tuple((c[0], c[1] is not None, c[4], tuple(c[5])) for c in calls),
                        tuple(sched[:20])))
    model = ctx.model(lines)
    for (calls, shared, sched, i), t, m in zip(metas, texts, model or texts):
        if m != t:
            res.disagreement(dict(cs_json(calls, shared, sched), call=i), t[:400], m[:400])
    res['evaluations'] += len(cases)
    res['scopes'][scope_name] = res['scopes'].get(scope_name, 0) + len(cases)


def eval_rs(ctx, cases, res, scope_name):
    cases = list(cases)
    _init(ctx.repo)
    lines, texts, metas = [], [], []
    for proto, plan in cases:
        r, w, dests = impl_rs(_mods, proto, plan)
        call = w.calls[0]
        cj = {'op': 'rs', 'proto': proto, 'plan': [[enc_attempt(a) for a in g] for g in plan]}
        for k, ((host, port), attempts) in enumerate(zip(dests, plan)):
            conns = [c for c in call.conns if c.group == k]
            for c in conns:
                bad = check_connection((proto, host, port, None), c)
                if bad:
                    res.violation(bad[0], cj, f'remote address {k} ({sc.enc_host(host)}:{port}): {bad[1]}',
                                  impl=c.received.hex())
            if k in call.tried:
                lines.append('px ' + sc.enc_case((proto, host, port, None)) + ' '
                             + ' '.join(enc_attempt(a) for a in attempts))
                texts.append(px_text(None, call, k).split(' | ', 1)[1:])
                metas.append((cj, k))
        res.count('rs_' + sw.outcome_name(r, _mods.socks))
    model = ctx.model(lines)
    for (cj, k), t, m in zip(metas, texts, model or []):
        if m.split(' | ', 1)[1:] != t:
            res.disagreement(dict(cj, remote_address=k), ' | '.join(t)[:400], m[:400])
    res['evaluations'] += len(cases)
    res['scopes'][scope_name] = res['scopes'].get(scope_name, 0) + len(cases)


RULE = ('case = (protocol class, destination, port, credentials); the real constructor and '
        'next_message() dialogues (no reply / method 0 selected / method 2 selected then '
        'accepted) are compared with the model and judged by server-side parsers written from '
        'the protocol documents; px/cc/rs cases drive the public create_connection on a fake '
        'network (1..3 proxy addresses with failures at every stage of the handshake, two or '
        'three concurrent calls on one proxy object under several schedules - also with '
        'segmented replies, one call parked in mid-reply while the other runs, on one and on two '
        'proxy objects -, several remote addresses) and judge the bytes each proxy connection received; distinct non-trivial = '
        'distinct cases inside the property\'s quantifier (expressible or inexpressible; '
        'lone-surrogate credentials, names the real NetAddress refuses and stub-only inputs are '
        'counted separately), plus distinct multi-connection scenarios')


def run(ctx):
    res = Results()
    rng = ctx.rng
    _init(ctx.repo)
    # (a) corpus first
    cc, cpx = corpus_cases(ctx.verif)
    if cc:
        evaluate(ctx, cc, res, 'corpus')
    if cpx:
        eval_px(ctx, cpx, res, 'corpus')
    # (b) through create_connection: fall-back, concurrency, several remote addresses
    eval_px(ctx, px_cases(ctx.deep, rng), res, 'create_connection_fallback', rng if ctx.deep else None)
    eval_cc(ctx, cc_cases(ctx.deep, rng), res, 'create_connection_concurrent')
    eval_cs(ctx, cs_cases(ctx.deep, rng), res, 'create_connection_concurrent_segmented')
    eval_rs(ctx, rs_cases(), res, 'create_connection_resolve')
    # (c) exhaustive scopes
    evaluate(ctx, corner_cases(), res, 'address_and_credential_corners')
    evaluate(ctx, name_cases(rng), res, 'names_every_length_1_253')
    evaluate(ctx, refused_name_cases(), res, 'names_netaddress_must_refuse')
    evaluate(ctx, credential_cases(range(0, 301)), res, 'credential_bytelengths_0_300')
    hosts = {'4': [V4], '4a': [V4, NAME], '5': [V4, NAME, V6]}
    if ctx.deep:
        for hs in ({'4': [V4], '4a': [V4], '5': [V4]}, {'4a': [NAME], '5': [NAME]}, {'5': [V6]}):
            if res.failed:
                break
            evaluate(ctx, port_cases(hs), res, 'every_port')
        all_ports = True
    else:
        # SOCKS5: greeting + CONNECT only (the dialogue that carries the port)
        evaluate(ctx, port_cases(hosts), res, 'every_port', light=True)
        all_ports = True
    # (d) seeded structured generator
    ngen = 150000 if ctx.deep else 12000
    gen = [random_case(rng) for _ in range(ngen)]
    outs = evaluate(ctx, gen, res, 'generated')
    for c, o in list(zip(gen, outs))[:3]:
        res.sample({'case': sc.enc_case(c), 'impl': o[0][:200]})
    # (e) malformed stream (stub address objects): model vs code only
    evaluate(ctx, malformed_cases(), res, 'malformed_stub', stub=True)
    random_auth_check(_mods, res)
    tuple_auth_check(_mods, ctx, res)
    return res.finish(RULE, exhaustive=all_ports and not res.failed)


def dec_attempt(tok):
    if tok in ('x', 's'):
        return (tok,)
    if tok.startswith('p'):
        return ('p', bytes.fromhex(tok[1:]) if tok[1:] != '-' else b'')
    return ('t', bytes.fromhex(tok) if tok != '-' else b'')


def dec_host(tok):
    kind, v = tok.split(':')
    return ('n', sc.dec_cps(v)) if kind == 'n' else (kind, bytes.fromhex(v))


def replay(ctx, case):
    if 'case' in case and isinstance(case['case'], dict):
        case = case['case']
    res = Results()
    _init(ctx.repo)
    op = case.get('op')
    if op == 'px':
        eval_px(ctx, [(sc.dec_case(case['line']), [dec_attempt(t) for t in case['attempts']])], res, 'replay')
    elif op == 'cc':
        eval_cc(ctx, [(case['proto'], tuple(case['auth']) if case['auth'] else None,
                       [(dec_host(h), p) for h, p in case['dests']],
                       [[dec_attempt(t) for t in g] for g in case['plan']], case['schedule'])], res, 'replay')
    elif op == 'cs':
        eval_cs(ctx, [([(c['proto'], tuple(c['auth']) if c['auth'] else None, dec_host(c['host']), c['port'],
                         bytes.fromhex(c['stream']), c['segments']) for c in case['calls']],
                       case['shared_proxy'], case['schedule'])], res, 'replay')
    elif op == 'rs':
        eval_rs(ctx, [(case['proto'], [[dec_attempt(t) for t in g] for g in case['plan']])], res, 'replay')
    else:
        evaluate(ctx, [sc.dec_case(case['line'])], res, 'replay', stub=bool(case.get('stub')))
    res.sample(case)
    return res.finish('replay of one recorded case')
