"""C16 correspondence + search: the real SOCKS4 / SOCKS4a / SOCKS5 classes vs the Lean model
(`drv_c16`), and the property oracle on every implementation trace.

The oracle is written from the property text and the protocol documents only: independent
*server-side* parsers (SOCKS4.protocol / SOCKS4A.protocol, RFC 1928, RFC 1929) are applied to
the bytes the client emitted and must recover exactly the destination / credentials that were
asked for, consuming every byte.  It never looks at the model."""
import os
from multiprocessing import Pool

from harness.base import Results
from harness import socks_common as sc

# ------------------------------------------------------------------ server-side parsers (spec)


def parse_socks4_request(b, ext_4a):
    """VN CD DSTPORT(2) DSTIP(4) USERID NUL [HOSTNAME NUL if DSTIP = 0.0.0.x, x != 0 (4a)]"""
    if len(b) < 9:
        return None
    i = b.find(0, 8)
    if i < 0:
        return None
    r = {'vn': b[0], 'cd': b[1], 'port': int.from_bytes(b[2:4], 'big'), 'ip': b[4:8],
         'user': b[8:i], 'host': None}
    rest = b[i + 1:]
    if ext_4a and b[4:7] == b'\0\0\0' and b[7] != 0:
        j = rest.find(0)
        if j < 0:
            return None
        r['host'] = rest[:j]
        rest = rest[j + 1:]
    r['rest'] = rest
    return r


def parse_greeting(b):
    """RFC 1928 s3: VER NMETHODS METHODS"""
    if len(b) < 2 or len(b) < 2 + b[1]:
        return None
    return {'ver': b[0], 'methods': list(b[2:2 + b[1]]), 'rest': b[2 + b[1]:]}


def parse_userpass(b):
    """RFC 1929 s2: VER(=1) ULEN UNAME PLEN PASSWD, ULEN and PLEN in 1..255"""
    if len(b) < 2:
        return None
    ulen = b[1]
    if len(b) < 2 + ulen + 1:
        return None
    plen = b[2 + ulen]
    if len(b) < 3 + ulen + plen:
        return None
    return {'ver': b[0], 'ulen': ulen, 'user': b[2:2 + ulen], 'plen': plen,
            'password': b[3 + ulen:3 + ulen + plen], 'rest': b[3 + ulen + plen:]}


def parse_connect(b):
    """RFC 1928 s4: VER CMD RSV ATYP DST.ADDR DST.PORT (network byte order)"""
    if len(b) < 4:
        return None
    atyp = b[3]
    if atyp == 1:
        n, off = 4, 4
    elif atyp == 4:
        n, off = 16, 4
    elif atyp == 3:
        if len(b) < 5:
            return None
        n, off = b[4], 5
    else:
        return None
    if len(b) < off + n + 2:
        return None
    return {'ver': b[0], 'cmd': b[1], 'rsv': b[2], 'atyp': atyp, 'addr': b[off:off + n],
            'port': int.from_bytes(b[off + n:off + n + 2], 'big'), 'rest': b[off + n + 2:]}


# ------------------------------------------------------------------ the property oracle
def has_surrogate(s):
    return any(0xD800 <= ord(ch) < 0xE000 for ch in s)


def scope(case):
    """'express' | 'inexpress' | None (outside the property's quantifier), with the reason"""
    proto, host, port, auth = case
    kind = host[0]
    if not 1 <= port <= 65535:
        return None, 'port outside 1..65535'
    if kind == 'n' and not (1 <= len(host[1]) <= 254 and host[1].isascii() and '\0' not in host[1]):
        return None, 'not a host name NetAddress would accept'
    if auth is not None:
        used = auth[0] if proto != '5' else auth[0] + auth[1]
        if has_surrogate(used):
            # a str holding a lone surrogate is not Unicode text (it has no UTF-8 form)
            return None, 'lone surrogate in credentials'
    if proto == '4':
        if kind != '4':
            return 'inexpress', 'SOCKS4 can only name an IPv4 destination'
    elif proto == '4a':
        if kind == '6':
            return 'inexpress', 'SOCKS4a cannot name an IPv6 destination'
    if proto in ('4', '4a') and auth is not None and '\0' in auth[0]:
        return 'inexpress', 'a NUL-terminated user id cannot contain NUL'
    if proto == '5' and auth is not None:
        for what, s in (('user name', auth[0]), ('password', auth[1])):
            n = len(s.encode())
            if not 1 <= n <= 255:
                return 'inexpress', f'RFC 1929 {what} length {n} not in 1..255'
    return 'express', ''


def expected_connect(host, port):
    kind, v = host
    if kind == '4':
        return 1, bytes(v)
    if kind == '6':
        return 4, bytes(v)
    return 3, v.encode('ascii')


def msgs_of(raw):
    return [r[1] for r in raw if r[0] == 'msg']


def oracle(mods, case, ctor_exc, raws, light=False):
    """Returns (key, why) if the property fails on this trace, else None.
    light: for SOCKS5 `raws` holds only the `05 00` dialogue."""
    proto, host, port, auth = case
    sc_, reason = scope(case)
    if sc_ is None:
        return None
    SOCKSError = mods.socks.SOCKSError
    first = raws[0] if raws else []
    if sc_ == 'inexpress':
        sent_first = msgs_of(first)
        if ctor_exc is not None:
            if isinstance(ctor_exc, SOCKSError):
                return None
            return ('c16:inexpressible-wrong-exception',
                    f'{reason}: constructor raised {sc.exc_name(ctor_exc)}, not a SOCKS error')
        if not sent_first and first and first[-1][0] == 'raise' and isinstance(first[-1][1], SOCKSError):
            return None     # refused before the first byte: still "before anything is sent"
        key = 'c16:socks4-nul-userid' if 'NUL' in reason else 'c16:inexpressible-not-rejected'
        return key, f'{reason}, but it was accepted and {len(sent_first)} message(s) were emitted'
    # expressible: must be accepted and byte-exact
    if ctor_exc is not None:
        return 'c16:expressible-rejected', f'constructor raised {sc.exc_name(ctor_exc)}'
    for raw in raws:
        for r in raw:
            if r[0] == 'raise' and not (proto == '5' and not light and raw is raws[-1] and auth is None):
                return 'c16:expressible-rejected', f'next_message raised {sc.exc_name(r[1])}'
    user = auth[0].encode() if auth is not None else b''
    if proto in ('4', '4a'):
        m = msgs_of(first)
        if len(m) != 1:
            return 'c16:socks4-request', f'{len(m)} messages before any reply'
        marker = host[0] == '4' and bytes(host[1][:3]) == b'\0\0\0' and host[1][3] != 0
        p = parse_socks4_request(m[0], ext_4a=(proto == '4a' and not marker))
        if p is None:
            return 'c16:socks4-request', 'a SOCKS4 server cannot parse the request'
        if host[0] == '4':
            want = dict(vn=4, cd=1, port=port, ip=bytes(host[1]), user=user, host=None, rest=b'')
        else:
            want = dict(vn=4, cd=1, port=port, ip=b'\0\0\0\1', user=user,
                        host=host[1].encode('ascii'), rest=b'')
        if p != want:
            return 'c16:socks4-request', f'server parses {p}, expected {want}'
        return None
    # SOCKS5
    methods = [0, 2] if auth is not None else [0]
    atyp, addr = expected_connect(host, port)
    want_conn = dict(ver=5, cmd=1, rsv=0, atyp=atyp, addr=addr, port=port, rest=b'')
    for di, raw in enumerate(raws, 1 if light else 0):
        m = msgs_of(raw)
        if not m:
            return 'c16:socks5-greeting', 'no greeting'
        g = parse_greeting(m[0])
        if g != dict(ver=5, methods=methods, rest=b''):
            return 'c16:socks5-greeting', f'server parses greeting {g}, expected methods {methods}'
        if di == 0:
            if len(m) != 1:
                return 'c16:socks5-greeting', 'more than the greeting sent before any reply'
        elif di == 1:       # proxy selected "no authentication"
            if len(m) != 2:
                return 'c16:socks5-auth', f'method 0 selected: {len(m)} messages sent, expected greeting + CONNECT'
            c = parse_connect(m[1])
            if c != want_conn:
                return 'c16:socks5-connect', f'server parses CONNECT {c}, expected {want_conn}'
        else:               # proxy selected "username/password"
            if auth is None:
                if len(m) != 1:
                    return 'c16:socks5-auth', 'method 2 selected without credentials, yet something was sent'
                continue
            if len(m) != 3:
                return 'c16:socks5-auth', f'method 2 selected: {len(m)} messages sent, expected 3'
            u = parse_userpass(m[1])
            want_u = dict(ver=1, ulen=len(user), user=user, plen=len(auth[1].encode()),
                          password=auth[1].encode(), rest=b'')
            if u != want_u:
                return 'c16:socks5-auth', f'server parses credentials {u}, expected {want_u}'
            c = parse_connect(m[2])
            if c != want_conn:
                return 'c16:socks5-connect', f'server parses CONNECT {c}, expected {want_conn}'
    return None


# ------------------------------------------------------------------ implementation side
DIALOGUES5 = ([], [b'\x05\x00'], [b'\x05\x02', b'\x01\x00'])


def impl_case(mods, case, stub=False, light=False):
    """Returns (text in the driver's output format, ctor exception, raw dialogues).
    light: SOCKS5 runs only the `05 00` dialogue (greeting + CONNECT)."""
    proto = case[0]
    dialogues = (DIALOGUES5[1:2] if light else DIALOGUES5) if proto == '5' else ([],)
    outs, raws = [], []
    for chunks in dialogues:
        try:
            client = sc.make_client(mods, case, stub)
        except Exception as e:     # observed, classified by the oracle
            return 'E:' + sc.exc_name(e), e, []
        out, raw = sc.drive_object(mods, client, chunks)
        outs.append(' '.join(out))
        raws.append(raw)
    return ' | '.join(outs), None, raws


def random_auth_check(mods, res):
    """SOCKSRandomAuth (fresh 64-hex-digit user name and password on every access): judged by
    the server-side parsers only - the values are random, so there is no model line."""
    hexd = set(b'0123456789abcdef')
    n = 0
    for proto in ('4', '4a', '5'):
        for host in (V4, NAME, V6):
            if scope((proto, host, 80, None))[0] != 'express':
                continue
            for port in (1, 80, 65535):
                try:
                    addr = sc.make_address(mods, host, port)
                    dialogs = DIALOGUES5 if proto == '5' else ([],)
                    raws = [sc.drive_object(mods, mods.cls[proto](addr, mods.socks.SOCKSRandomAuth()), ch)[1]
                            for ch in dialogs]
                except Exception as e:      # observed
                    res.violation('c16:expressible-rejected', {'random_auth': proto, 'host': sc.enc_host(host)},
                                  f'SOCKSRandomAuth: {sc.exc_name(e)}')
                    continue
                n += 1
                bad = None
                if proto != '5':
                    m = msgs_of(raws[0])
                    p4 = parse_socks4_request(m[0], ext_4a=(proto == '4a')) if len(m) == 1 else None
                    if not p4 or p4['rest'] or p4['port'] != port or len(p4['user']) != 64 \
                            or not set(p4['user']) <= hexd:
                        bad = f'SOCKS4 request with random auth parses to {p4}'
                else:
                    m = msgs_of(raws[2])
                    u = parse_userpass(m[1]) if len(m) == 3 else None
                    g = parse_greeting(m[0]) if m else None
                    if not u or u['rest'] or u['ver'] != 1 or len(u['user']) != 64 or len(u['password']) != 64 \
                            or not set(u['user'] + u['password']) <= hexd or not g or g['methods'] != [0, 2]:
                        bad = f'random auth dialogue parses to {g} / {u}'
                    elif len(msgs_of(raws[1])) != 2:
                        bad = 'credentials sent although method 0 was selected'
                if bad:
                    res.violation('c16:random-auth', {'random_auth': proto, 'host': sc.enc_host(host), 'port': port}, bad)
    res['scopes']['random_auth_objects'] = n
    res['evaluations'] += n


# ------------------------------------------------------------------ case generation
V4 = ('4', bytes([1, 2, 3, 4]))
V6 = ('6', bytes(range(16)))
NAME = ('n', 'example.com')
CH = {1: 'a', 2: 'é', 3: '€', 4: '\U0001F600'}
ADDR4 = [bytes(x) for x in ([0, 0, 0, 0], [0, 0, 0, 1], [0, 0, 0, 255], [0, 0, 1, 0], [1, 0, 0, 0],
                            [127, 0, 0, 1], [255, 255, 255, 255], [8, 8, 8, 8], [0, 1, 0, 1],
                            [10, 0, 0, 0], [192, 168, 0, 255], [1, 2, 3, 4], [4, 3, 2, 1])]
ADDR6 = [bytes(16), bytes(15) + b'\1', b'\xff' * 16, bytes(10) + b'\xff\xff' + bytes([1, 2, 3, 4]),
         bytes(range(16)), bytes(range(240, 256)), b'\x20\x01\x0d\xb8' + bytes(12), b'\1' + bytes(15)]


def name_of_length(n, rng=None):
    """a valid host name with exactly n characters (labels of at most 63)"""
    labels, left = [], n
    while left > 0:
        ln = min(63, left)
        if left - ln == 1:      # would leave a lone '.', shorten this label
            ln -= 1
        labels.append(ln)
        left -= ln + 1
    alpha = 'abcdefghijklmnopqrstuvwxyzABCDEFGHIJKLMNOPQRSTUVWXYZ0123456789_'
    out = []
    for ln in labels:
        if rng is None:
            out.append(('x' * ln))
        else:
            out.append(''.join(rng.choice(alpha) for _ in range(ln)))
    s = '.'.join(out)
    if s[-1].isdigit():
        s = s[:-1] + 'z'
    assert len(s) == n, (n, len(s))
    return s


def strings_of_bytelen(n):
    """strings whose UTF-8 encoding has exactly n bytes, with the multi-byte character at the
    end (so it straddles a length boundary), at the start, or everywhere"""
    out = []
    if n == 0:
        return ['']
    out.append('a' * n)
    for w in (2, 3, 4):
        if n >= w:
            out.append('a' * (n - w) + CH[w])
            out.append(CH[w] + 'a' * (n - w))
            if n % w == 0:
                out.append(CH[w] * (n // w))
    return out


def port_cases(hosts_by_proto, step=1):
    for port in range(1, 65536, step):
        for proto, hosts in hosts_by_proto.items():
            yield (proto, hosts[port % len(hosts)], port, None)


def credential_cases(lengths):
    for n in lengths:
        for s in strings_of_bytelen(n):
            for proto in ('4', '4a', '5'):
                yield (proto, V4, 80, (s, 'pw'))
            yield ('5', NAME, 443, ('user', s))
            yield ('5', V6, 1, (s, s))


def corner_cases():
    for proto in ('4', '4a', '5'):
        for a in ADDR4:
            for port in (1, 80, 255, 256, 257, 65280, 65535):
                yield (proto, ('4', a), port, None)
                yield (proto, ('4', a), port, ('u', 'p'))
        for a in ADDR6:
            yield (proto, ('6', a), 443, None)
            yield (proto, ('6', a), 65535, ('u', 'p'))
    # NUL / odd characters in credentials
    for proto in ('4', '4a', '5'):
        for host in (V4, NAME, V6):
            for u in ('\0', 'a\0b', '\0a', 'a\0', 'a\0\0', 'a b', 'a\nb', '\x7f', '\x80', '￿',
                      '\U0010ffff', '\ud800', 'a\udfffb', ''):
                yield (proto, host, 80, (u, 'p'))
                yield (proto, host, 80, ('u', u))


def name_cases(rng):
    for n in range(1, 254):
        for proto in ('4a', '5', '4'):
            yield (proto, ('n', name_of_length(n)), 80, None)
        yield ('5', ('n', name_of_length(n, rng)), 1 + rng.randrange(65535), ('u', 'p'))
        yield ('4a', ('n', name_of_length(n, rng)), 1 + rng.randrange(65535), ('u' * (n % 7), ''))
        # trailing dot: up to 254 characters
        yield ('5', ('n', name_of_length(n) + '.'), 80, None)
        yield ('4a', ('n', name_of_length(n) + '.'), 80, None)


def random_case(rng):
    proto = rng.choice(('4', '4a', '5', '5'))
    r = rng.random()
    if r < 0.4:
        host = ('4', bytes(rng.choice((0, 0, 1, 127, 255, rng.randrange(256))) for _ in range(4)))
    elif r < 0.6:
        host = ('6', bytes(rng.choice((0, 0, 255, rng.randrange(256))) for _ in range(16)))
    else:
        host = ('n', name_of_length(rng.choice((1, 2, 3, 10, 63, 64, 65, 127, 252, 253,
                                                 rng.randint(1, 253))), rng))
    port = rng.choice((1, 255, 256, 65535, rng.randint(1, 65535), rng.randint(1, 65535)))
    r = rng.random()
    if r < 0.3:
        auth = None
    else:
        def cred():
            k = rng.random()
            target = rng.choice((0, 1, 2, 254, 255, 256, 257, 300, rng.randint(0, 300), rng.randint(1, 40)))
            s, n = [], 0
            while n < target:
                w = rng.choice((1, 1, 1, 2, 3, 4))
                if n + w > target:
                    w = 1
                if w == 1:
                    s.append(rng.choice('abcXYZ019 _-@:/\x7f'))
                elif w == 2:
                    s.append(chr(rng.randint(0x80, 0x7ff)))
                elif w == 3:
                    c = rng.randint(0x800, 0xffff)
                    s.append(chr(c if not 0xD800 <= c < 0xE000 else 0x20ac))
                else:
                    s.append(chr(rng.randint(0x10000, 0x10ffff)))
                n += w
            s = ''.join(s)
            if k < 0.04 and s:
                i = rng.randrange(len(s))
                s = s[:i] + '\0' + s[i + 1:]
            elif k < 0.06 and s:
                i = rng.randrange(len(s))
                s = s[:i] + chr(rng.randint(0xD800, 0xDFFF)) + s[i + 1:]
            return s
        auth = (cred(), cred())
    return (proto, host, port, auth)


def malformed_cases():
    """inputs only a stub address object can deliver (outside the property's quantifier: the
    model must still agree with the code on the Python failure mode)"""
    for proto in ('4', '4a', '5'):
        yield (proto, V4, 0, None)
        yield (proto, V4, 65536, None)
        yield (proto, ('n', 'a' * 255), 80, None)
        yield (proto, ('n', 'a' * 256), 80, None)
        yield (proto, ('n', 'é' * 128), 80, None)
        yield (proto, ('n', 'a\0b'), 80, None)
        yield (proto, ('n', 'a\ud800'), 80, ('u', 'p'))
        yield (proto, ('n', 'K' * 100), 80, None)


def corpus_cases(verif):
    path = os.path.join(verif, 'corpus', 'C16.txt')
    out = []
    if os.path.exists(path):
        for line in open(path):
            line = line.split('#')[0].strip()
            if line:
                out.append(sc.dec_case(line))
    return out


# ------------------------------------------------------------------ evaluation
_mods = None


def _init(repo):
    global _mods
    _mods = sc.Mods(repo)


def _impl_batch(args):
    cases, stub, light = args
    res = []
    for case in cases:
        text, ctor_exc, raws = impl_case(_mods, case, stub, light)
        bad = oracle(_mods, case, ctor_exc, raws, light) if not stub else None
        res.append((text, bad, scope(case)[0] if not stub else 'stub'))
    return res


def run_impl(ctx, cases, stub, light=False):
    n = len(cases)
    if n < 30000 or not ctx.deep:
        _init(ctx.repo)
        return _impl_batch((cases, stub, light))
    nproc = min(8, os.cpu_count() or 1)
    size = max(5000, n // (nproc * 3))
    jobs = [(cases[i:i + size], stub, light) for i in range(0, n, size)]
    with Pool(nproc, initializer=_init, initargs=(ctx.repo,)) as pool:
        parts = pool.map(_impl_batch, jobs)
    return [r for p in parts for r in p]


def evaluate(ctx, cases, res, scope_name, stub=False, light=False):
    cases = list(cases)
    outs = run_impl(ctx, cases, stub, light)
    model = ctx.model([sc.enc_case(c) + (' d1' if light else '') for c in cases])
    for i, (case, (text, bad, sc_)) in enumerate(zip(cases, outs)):
        if bad:
            res.violation(bad[0], sc.case_json(case), bad[1], impl=text[:300])
        if model is not None and model[i] != text:
            res.disagreement(sc.case_json(case), text[:400], model[i][:400], stub=stub)
        res.count(f'scope_{sc_}')
        res.count(f'proto_{case[0]}')
        res.count(f'host_{case[1][0]}')
        res.count('with_credentials', case[3] is not None)
        if text.startswith('E:'):
            res.count('ctor_' + text[2:])
        if case[3] is not None:
            for s in case[3]:
                n = len(s.encode('utf-8', 'surrogatepass'))
                if n in (0, 1, 254, 255, 256, 257):
                    res.count(f'cred_bytelen_{n}')
        if sc_ in ('express', 'inexpress'):
            res.nontrivial(sc.enc_case(case))
    res['evaluations'] += len(cases)
    res['scopes'][scope_name] = res['scopes'].get(scope_name, 0) + len(cases)
    return outs


RULE = ('case = (protocol class, destination, port, credentials); the real constructor and '
        'next_message() dialogues (no reply / method 0 selected / method 2 selected then '
        'accepted) are compared with the model and judged by server-side parsers written from '
        'the protocol documents; distinct non-trivial = distinct cases inside the property\'s '
        'quantifier (expressible or inexpressible; lone-surrogate credentials and stub-only '
        'inputs are counted separately and compared with the model only)')


def run(ctx):
    res = Results()
    rng = ctx.rng
    _init(ctx.repo)
    # (a) corpus first
    cc = corpus_cases(ctx.verif)
    if cc:
        evaluate(ctx, cc, res, 'corpus')
    # (b) exhaustive scopes
    evaluate(ctx, corner_cases(), res, 'address_and_credential_corners')
    evaluate(ctx, name_cases(rng), res, 'names_every_length_1_253')
    evaluate(ctx, credential_cases(range(0, 301)), res, 'credential_bytelengths_0_300')
    hosts = {'4': [V4], '4a': [V4, NAME], '5': [V4, NAME, V6]}
    if ctx.deep:
        for hs in ({'4': [V4], '4a': [V4], '5': [V4]}, {'4a': [NAME], '5': [NAME]}, {'5': [V6]}):
            if res.failed:
                break
            evaluate(ctx, port_cases(hs), res, 'every_port')
        all_ports = True
    else:
        # SOCKS5: greeting + CONNECT only (the dialogue that carries the port)
        evaluate(ctx, port_cases(hosts), res, 'every_port', light=True)
        all_ports = True
    # (c) seeded structured generator
    ngen = 150000 if ctx.deep else 12000
    gen = [random_case(rng) for _ in range(ngen)]
    outs = evaluate(ctx, gen, res, 'generated')
    for c, o in list(zip(gen, outs))[:3]:
        res.sample({'case': sc.enc_case(c), 'impl': o[0][:200]})
    # (d) malformed stream (stub address objects): model vs code only
    evaluate(ctx, malformed_cases(), res, 'malformed_stub', stub=True)
    random_auth_check(_mods, res)
    return res.finish(RULE, exhaustive=all_ports and not res.failed)


def replay(ctx, case):
    if 'case' in case and isinstance(case['case'], dict):
        case = case['case']
    res = Results()
    _init(ctx.repo)
    evaluate(ctx, [sc.dec_case(case['line'])], res, 'replay', stub=bool(case.get('stub')))
    res.sample(case)
    return res.finish('replay of one recorded case')
