"""Virtual-time asyncio loop (DESIGN.md §2.4).

`select(timeout)` never blocks: it adds `timeout` to a fake clock; `select(None)` means no task
can ever make progress again and raises `Deadlock`.  A run that makes too many loop iterations
without virtual time advancing raises `Livelock`.
"""
import asyncio
import selectors


class Deadlock(Exception):
    pass


class Livelock(Exception):
    pass


class VSelector(selectors.BaseSelector):
    def __init__(self, loop_ref):
        self._real = selectors.DefaultSelector()
        self.loop_ref = loop_ref

    def register(self, *a, **k):
        return self._real.register(*a, **k)

    def unregister(self, *a, **k):
        return self._real.unregister(*a, **k)

    def modify(self, *a, **k):
        return self._real.modify(*a, **k)

    def get_map(self):
        return self._real.get_map()

    def close(self):
        self._real.close()

    def select(self, timeout=None):
        ev = self._real.select(0)
        if ev:
            return ev
        loop = self.loop_ref[0]
        if timeout is None:
            raise Deadlock('nothing scheduled: a task would wait forever')
        if timeout > 0:
            loop._vtime += timeout
            loop._spin = 0
        else:
            loop._spin += 1
            if loop._spin > loop.spin_limit:
                raise Livelock(f'{loop._spin} loop iterations without virtual-time progress')
        if loop._vtime > loop.vtime_limit:
            raise Livelock(f'virtual time limit {loop.vtime_limit} exceeded')
        return []


class VLoop(asyncio.SelectorEventLoop):
    spin_limit = 200_000
    vtime_limit = 10_000_000.0

    def __init__(self):
        ref = [None]
        super().__init__(VSelector(ref))
        ref[0] = self
        self._vtime = 0.0
        self._spin = 0
        self._clock_resolution = 1e-9

    def time(self):
        return self._vtime


def run(coro):
    """Run `coro` to completion on a fresh virtual loop; returns its result."""
    loop = VLoop()
    asyncio.set_event_loop(loop)
    try:
        return loop.run_until_complete(coro)
    finally:
        try:
            # do not let leftovers of one case leak into the next
            for t in asyncio.all_tasks(loop):
                t.cancel()
            loop.run_until_complete(asyncio.sleep(0))
        except BaseException:
            pass
        asyncio.set_event_loop(None)
        loop.close()
