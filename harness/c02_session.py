"""C02, serving-session layer (PARTIAL: the ordering of handler tasks is asyncio's): a real
server `RPCSession` on a fake transport receives a batch / single message; its handlers are
gated and released in the completion order of the case; what is *written to the transport* after
each release is decoded and judged by the same oracle and compared with the same model as the
connection-level check."""
import asyncio
import json
import logging

from harness import vloop
from harness.c02_util import PROTO_CLASS, make_session, settle
from harness.c02 import (_prepare, batch_oracle, classify_member, decode_entry, impl_text,
                         model_line, normalise_model, random_case, result_for, single_cases,
                         single_oracle)
from tools.facts.common import fresh_import


def take(transport):
    """[(decoded JSON message, length in bytes without the frame's newline)] written since the
    last call"""
    data = b''.join(transport.out)
    transport.out.clear()
    return [(json.loads(m), len(m)) for m in data.split(b'\n') if m]


async def run_scenario(mods, case):
    jr, rawsocket, session_mod = mods
    proto = getattr(jr, PROTO_CLASS[case['proto']])
    gates = {}
    errs = set(case.get('errs', ())) | ({0} if case.get('err') else set())
    # notifications whose handler fails (RPCError / another exception by member parity): still
    # nothing may be emitted for them
    nerrs = set(case.get('nerrs', ())) | ({0} if case.get('err') else set())
    seen_notifs = []

    class Server(session_mod.RPCSession):
        def default_connection(self):
            c = jr.JSONRPCConnection(proto)
            c.max_response_size = case['max']
            return c

        async def handle_request(self, request):
            m = request.args[0]
            if isinstance(request, jr.Notification):
                seen_notifs.append(m)
                if m in nerrs:
                    raise jr.RPCError(77, 'notification failed') if m % 2 == 0 else ValueError('boom')
                return None
            await gates.setdefault(m, asyncio.Event()).wait()
            result, _ = result_for(jr, m, m in errs)
            if isinstance(result, Exception):
                raise result
            return result

    logging.disable(logging.CRITICAL)
    p, transport, session = make_session(rawsocket, Server, session_mod.SessionKind.SERVER)
    if 'single' in case:
        rec = await _single(jr, p, transport, session, case, gates, seen_notifs)
        logging.disable(logging.NOTSET)
        return rec
    rec = {'raised': None, 'calls': [], 'lens': [], 'exc': None, 'items': None, 'rawlens': [],
           'extra': 0}
    p.data_received(json.dumps(case['members']).encode() + b'\n')
    await settle(10)
    first = take(transport)
    if first:
        rec['raised'] = [decode_entry(x) for x in first[0][0]] if isinstance(first[0][0], list) \
            else [('?', 'single-message')]
        rec['extra'] += len(first) - 1
    inforce = getattr(jr, PROTO_CLASS[case.get('inforce', case['proto'])])
    kinds = [classify_member(case.get('inforce', case['proto']), m) for m in case['members']]
    for m in case['order']:
        result, _ = result_for(jr, m, m in errs)
        rec['lens'].append(len(inforce.response_message(result, kinds[m][1])))
        gates.setdefault(m, asyncio.Event()).set()
        await settle(10)
        out = take(transport)
        rec['extra'] += max(0, len(out) - 1)
        rec['calls'].append([decode_entry(x) for x in out[0][0]] if out and isinstance(out[0][0], list)
                            else ([('?', 'single-message')] if out else None))
        rec['rawlens'].append(out[0][1] if out else None)
    await settle(6)
    rec['extra'] += len(take(transport))
    nnotif = sum(1 for k in kinds if k[0] == 'notif')
    rec['notifs_handled'] = len(seen_notifs)
    rec['notifs_expected'] = nnotif
    await session.close()
    logging.disable(logging.NOTSET)
    return rec


async def _single(jr, p, transport, session, case, gates, seen_notifs):
    """one request / notification through the serving session: what is written"""
    rec = {'exc': None, 'reply': None, 'len': 0, 'items': None, 'raised': None, 'extra': 0}
    p.data_received(json.dumps(case['single']).encode() + b'\n')
    await settle(10)
    first = [m for m, _n in take(transport)]
    kind = classify_member(case.get('inforce', case['proto']), case['single'])
    if first:
        rec['raised'] = decode_entry(first[0])
        rec['extra'] += len(first) - 1
    if kind[0] == 'req':
        inforce = getattr(jr, PROTO_CLASS[case.get('inforce', case['proto'])])
        result, _ = result_for(jr, 0, case.get('err'))
        rec['len'] = len(inforce.response_message(result, kind[1]))
        gates.setdefault(0, asyncio.Event()).set()
        await settle(10)
        out = [m for m, _n in take(transport)]
        rec['extra'] += max(0, len(out) - 1)
        rec['items'] = ['r']
        rec['reply'] = decode_entry(out[0]) if out else None
    elif kind[0] == 'notif':
        rec['items'] = ['n'] if seen_notifs else ['?']
    await settle(4)
    rec['extra'] += len(take(transport))
    await session.close()
    return rec


def _evaluate(ctx, cases, res):
    mods = (fresh_import(ctx.repo, 'aiorpcx.jsonrpc'), fresh_import(ctx.repo, 'aiorpcx.rawsocket'),
            fresh_import(ctx.repo, 'aiorpcx.session'))

    async def go():
        out = []
        for c in cases:
            _prepare(c)
            try:
                out.append(await run_scenario(mods, c))
            except (vloop.Deadlock, vloop.Livelock) as e:
                out.append({'hang': type(e).__name__})
        return out
    recs = vloop.run(go())
    lines, idx = [], []
    for k, (c, rec) in enumerate(zip(cases, recs)):
        sc = dict(c, layer='session')
        if 'hang' in rec:
            res.violation('c02:session-hang', sc, rec['hang'])
            continue
        v = single_oracle(c, rec) if 'single' in c else batch_oracle(c, rec)
        if v:
            res.violation(v[0] if v[0].startswith('c02:notif-invalid') else v[0] + '@session',
                          sc, v[1], impl=impl_text(c, rec))
        # a batch that raised at the connection never has its notifications processed: the
        # property only speaks about replies, so this is recorded, not judged
        res.count('session_notifications_handled', rec.get('notifs_handled', 0))
        line = model_line(c, rec)
        if line is not None:
            lines.append(line)
            idx.append(k)
    model = ctx.model(lines)
    if model is not None:
        for line, out, k in zip(lines, model, idx):
            want = ' '.join(normalise_model(t) for t in out.split(' '))
            got = impl_text(cases[k], recs[k])
            if want != got:
                res.disagreement(dict(cases[k], layer='session'), got, want, model_line=line)
    res['evaluations'] += len(cases)
    res['scopes']['session_scenarios'] = res['scopes'].get('session_scenarios', 0) + len(cases)


def run(ctx, res):
    jr = fresh_import(ctx.repo, 'aiorpcx.jsonrpc')
    from harness.c02 import is_deep, unlisted_failure
    n = 120 if unlisted_failure(ctx, res) else (3000 if ctx.tier == 'thorough' else 400 if is_deep(ctx) else 120)
    cases = [random_case(ctx.rng, jr) for _ in range(n)]
    # fixed ones: F8, all invalid, notifications only, oversize
    v2 = lambda m, **kw: dict({'jsonrpc': '2.0', 'method': 'm', 'params': [m]}, **kw)
    cases = [
        {'proto': 'v2', 'max': 0, 'members': [v2(0), 5], 'order': [], 'errs': []},
        {'proto': 'v2', 'max': 0, 'members': [5, v2(1, id=3, method=1)], 'order': [], 'errs': []},
        {'proto': 'v2', 'max': 0, 'members': [v2(0), v2(1)], 'order': [], 'errs': []},
        {'proto': 'v2', 'max': 60, 'members': [v2(0, id=1), v2(1, id=1), v2(2, id='a')],
         'order': [2, 0, 1], 'errs': [1]},
    ] + cases
    singles = single_cases(jr)
    cases += singles[::(3 if ctx.tier == 'thorough' else 9)]
    _evaluate(ctx, cases, res)


def replay(ctx, case, res):
    case = {k: v for k, v in case.items() if k != 'layer'}
    _evaluate(ctx, [case], res)
