"""C02, serving-session layer (PARTIAL: the ordering of handler tasks is asyncio's): a real
server `RPCSession` on a fake transport receives a batch / single message; its handlers are
gated and released in the completion order of the case; what is *written to the transport* after
each release is decoded and judged by the same oracle and compared with the same model as the
connection-level check.

`max_response_size` changing while requests are in flight (`lims` / `lim` of the case, see
harness/c02.py): between two releases the limit is changed either by ANOTHER REQUEST'S HANDLER
(`via` = 'handler': a `set_limit` request is sent to the session while the batch members are
suspended in `handle_request`; its handler assigns `self.connection.max_response_size` and is
answered at once - the seeded C02-r3m3 history) or by the operator (`via` = 'attr': the public
attribute of `session.connection` is assigned).  The `set_limit` request is an ordinary request
of the session: it must be answered exactly once under its id, too."""
import asyncio
import json
import logging

from harness import vloop
from harness.c02_util import PROTO_CLASS, case_wire, make_session, resp_len, settle
from harness.c02 import (_prepare, batch_oracle, classify_member, decode_entry, impl_text,
                         limit_changes, limits_of, model_line, normalise_model, random_case,
                         result_for, setlim_answer_ok, single_cases, single_oracle, nonfinite_cases)

SETLIM_ID = 880088
from tools.facts.common import fresh_import


def take(transport):
    """[(decoded JSON message, length in bytes without the frame's newline)] written since the
    last call"""
    data = b''.join(transport.out)
    transport.out.clear()
    return [(json.loads(m), len(m)) for m in data.split(b'\n') if m]


async def run_scenario(mods, case):
    jr, rawsocket, session_mod = mods
    proto = getattr(jr, PROTO_CLASS[case['proto']])
    gates = {}
    errs = set(case.get('errs', ())) | ({0} if case.get('err') else set())
    # notifications whose handler fails (RPCError / another exception by member parity): still
    # nothing may be emitted for them
    nerrs = set(case.get('nerrs', ())) | ({0} if case.get('err') else set())
    seen_notifs = []

    class Server(session_mod.RPCSession):
        def default_connection(self):
            c = jr.JSONRPCConnection(proto)
            c.max_response_size = case['max']
            return c

        async def handle_request(self, request):
            if request.method == 'set_limit':
                # another request's handler changes the public attribute while the members of
                # the batch are suspended below
                self.connection.max_response_size = request.args[0]
                return True
            m = request.args[0]
            if isinstance(request, jr.Notification):
                seen_notifs.append(m)
                if m in nerrs:
                    raise jr.RPCError(77, 'notification failed') if m % 2 == 0 else ValueError('boom')
                return None
            await gates.setdefault(m, asyncio.Event()).wait()
            result, _ = result_for(jr, m, m in errs)
            if isinstance(result, Exception):
                raise result
            return result

    logging.disable(logging.CRITICAL)
    p, transport, session = make_session(rawsocket, Server, session_mod.SessionKind.SERVER)
    style = case.get('inforce', case['proto'])
    state = {'lim': case['max'], 'setlim_bad': 0}

    async def change_limit(lim):
        """make `lim` the limit in force (nothing happens if it already is)"""
        if lim == state['lim']:
            return []
        state['lim'] = lim
        if case.get('via', 'handler') == 'attr':
            session.connection.max_response_size = lim
            return []
        msg = {'method': 'set_limit', 'params': [lim], 'id': SETLIM_ID}
        if style == 'v2':
            msg['jsonrpc'] = '2.0'
        p.data_received(json.dumps(msg).encode() + b'\n')
        await settle(10)
        out = take(transport)
        mine = [o for o in out if isinstance(o[0], dict) and o[0].get('id') == SETLIM_ID]
        if len(mine) != 1 or not setlim_answer_ok(jr, style, mine[0][0], SETLIM_ID, lim):
            state['setlim_bad'] += 1
        return [o for o in out if o not in mine]       # anything else written meanwhile

    if 'single' in case:
        rec = await _single(jr, p, transport, session, case, gates, seen_notifs, change_limit)
        rec['setlim_bad'] = state['setlim_bad']
        logging.disable(logging.NOTSET)
        return rec
    rec = {'raised': None, 'calls': [], 'lens': [], 'exc': None, 'items': None, 'rawlens': [],
           'extra': 0}
    p.data_received(case_wire(case) + b'\n')
    await settle(10)
    first = take(transport)
    if first:
        rec['raised'] = [decode_entry(x) for x in first[0][0]] if isinstance(first[0][0], list) \
            else [('?', 'single-message')]
        rec['extra'] += len(first) - 1
    inforce = getattr(jr, PROTO_CLASS[case.get('inforce', case['proto'])])
    kinds = [classify_member(case.get('inforce', case['proto']), m) for m in case['members']]
    for m, lim in zip(case['order'], limits_of(case)):
        result, _ = result_for(jr, m, m in errs)
        rec['lens'].append(resp_len(inforce, result, kinds[m][1]))
        rec['extra'] += len(await change_limit(lim))      # a batch message here is one too early
        gates.setdefault(m, asyncio.Event()).set()
        await settle(10)
        out = take(transport)
        rec['extra'] += max(0, len(out) - 1)
        rec['calls'].append([decode_entry(x) for x in out[0][0]] if out and isinstance(out[0][0], list)
                            else ([('?', 'single-message')] if out else None))
        rec['rawlens'].append(out[0][1] if out else None)
    await settle(6)
    rec['extra'] += len(take(transport))
    nnotif = sum(1 for k in kinds if k[0] == 'notif')
    rec['notifs_handled'] = len(seen_notifs)
    rec['notifs_expected'] = nnotif
    rec['setlim_bad'] = state['setlim_bad']
    await session.close()
    logging.disable(logging.NOTSET)
    return rec


async def _single(jr, p, transport, session, case, gates, seen_notifs, change_limit):
    """one request / notification through the serving session: what is written"""
    rec = {'exc': None, 'reply': None, 'len': 0, 'items': None, 'raised': None, 'extra': 0}
    p.data_received(case_wire(case) + b'\n')
    await settle(10)
    first = [m for m, _n in take(transport)]
    kind = classify_member(case.get('inforce', case['proto']), case['single'])
    if first:
        rec['raised'] = decode_entry(first[0])
        rec['extra'] += len(first) - 1
    if kind[0] == 'req':
        inforce = getattr(jr, PROTO_CLASS[case.get('inforce', case['proto'])])
        result, _ = result_for(jr, 0, case.get('err'))
        rec['len'] = resp_len(inforce, result, kind[1])
        rec['extra'] += len(await change_limit(limits_of(case)[0]))
        gates.setdefault(0, asyncio.Event()).set()
        await settle(10)
        out = [m for m, _n in take(transport)]
        rec['extra'] += max(0, len(out) - 1)
        rec['items'] = ['r']
        rec['reply'] = decode_entry(out[0]) if out else None
    elif kind[0] == 'notif':
        rec['items'] = ['n'] if seen_notifs else ['?']
    await settle(4)
    rec['extra'] += len(take(transport))
    await session.close()
    return rec


def _evaluate(ctx, cases, res):
    mods = (fresh_import(ctx.repo, 'aiorpcx.jsonrpc'), fresh_import(ctx.repo, 'aiorpcx.rawsocket'),
            fresh_import(ctx.repo, 'aiorpcx.session'))

    async def go(chunk):
        out = []
        for c in chunk:
            _prepare(c)
            try:
                out.append(await run_scenario(mods, c))
            except (vloop.Deadlock, vloop.Livelock) as e:
                out.append({'hang': type(e).__name__})
        return out
    # the gated scenarios never advance the virtual clock: a fresh loop per chunk keeps the
    # loop's no-progress counter (Livelock detection) about one chunk, not about the whole run
    recs = []
    for k in range(0, len(cases), 200):
        recs += vloop.run(go(cases[k:k + 200]))
    lines, idx = [], []
    for k, (c, rec) in enumerate(zip(cases, recs)):
        sc = dict(c, layer='session')
        if 'hang' in rec:
            res.violation('c02:session-hang', sc, rec['hang'])
            continue
        v = single_oracle(c, rec) if 'single' in c else batch_oracle(c, rec)
        if not v and rec.get('setlim_bad'):
            v = ('c02:reply-count', 'a set_limit request sent while other requests were in flight '
                                    'was not answered exactly once with its result')
        res.count('session_limit_changed_in_flight', limit_changes(c))
        if v:
            res.violation(v[0] if v[0].startswith('c02:notif-invalid') else v[0] + '@session',
                          sc, v[1], impl=impl_text(c, rec))
        # a batch that raised at the connection never has its notifications processed: the
        # property only speaks about replies, so this is recorded, not judged
        res.count('session_notifications_handled', rec.get('notifs_handled', 0))
        line = model_line(c, rec)
        if line is not None:
            lines.append(line)
            idx.append(k)
    model = ctx.model(lines)
    if model is not None:
        for line, out, k in zip(lines, model, idx):
            want = ' '.join(normalise_model(t) for t in out.split(' '))
            got = impl_text(cases[k], recs[k])
            if want != got:
                res.disagreement(dict(cases[k], layer='session'), got, want, model_line=line)
    res['evaluations'] += len(cases)
    res['scopes']['session_scenarios'] = res['scopes'].get('session_scenarios', 0) + len(cases)


def run(ctx, res):
    jr = fresh_import(ctx.repo, 'aiorpcx.jsonrpc')
    from harness.c02 import is_deep, unlisted_failure
    n = 120 if unlisted_failure(ctx, res) else (3000 if ctx.tier == 'thorough' else 400 if is_deep(ctx) else 120)
    cases = [random_case(ctx.rng, jr) for _ in range(n)]
    # fixed ones: F8, all invalid, notifications only, oversize
    v2 = lambda m, **kw: dict({'jsonrpc': '2.0', 'method': 'm', 'params': [m]}, **kw)
    cases = [
        {'proto': 'v2', 'max': 0, 'members': [v2(0), 5], 'order': [], 'errs': []},
        {'proto': 'v2', 'max': 0, 'members': [5, v2(1, id=3, method=1)], 'order': [], 'errs': []},
        {'proto': 'v2', 'max': 0, 'members': [v2(0), v2(1)], 'order': [], 'errs': []},
        {'proto': 'v2', 'max': 60, 'members': [v2(0, id=1), v2(1, id=1), v2(2, id='a')],
         'order': [2, 0, 1], 'errs': [1]},
    ] + limit_scenarios(jr) + cases
    singles = single_cases(jr)
    cases += singles[::(3 if ctx.tier == 'thorough' else 9)]
    # request ids that are non-finite floats (raw wire text `1e999`, `Infinity`, `NaN`, ..): every
    # such single without a limit, and every composition up to 2 members of the connection-level
    # family (duplicates, mixed with ordinary ids, invalid members carrying them), unlimited
    cases += [c for c in singles if c['max'] == 0 and 'lim' not in c and _nonfinite_single(c)]
    cases += [c for c in nonfinite_cases(jr, 3 if ctx.tier == 'thorough' else 2, ('v2', 'loose')) if c['max'] == 0]
    # every third of the singles whose limit changes between receipt and result (all of them at
    # depth), alternately through another request's handler and through the attribute
    moving = [dict(c, via=('handler', 'attr')[k % 2])
              for k, c in enumerate(x for x in singles if 'lim' in x and x['proto'] != 'auto')]
    cases += moving if is_deep(ctx) else moving[::3]
    for k, c in enumerate(cases):
        if 'lims' in c and 'via' not in c:
            c['via'] = ('handler', 'attr')[k % 3 == 2]
    _evaluate(ctx, cases, res)
    refusal_family(ctx, res)


def refusal_family(ctx, res, only=None):
    """Oracle only (no model line): a request that the session REFUSES to run - its accumulated
    cost is past `cost_hard_limit`, the limiter raises instead of admitting the handler - is an
    incoming request like any other: it must be answered exactly once, under its own id (with an
    error), before the session hangs up.  Shapes: a single request, and a batch whose only
    request member is refused (with and without notifications after it; a batch with several
    request members is not judged here - what a disconnect may cut short is C03's business).
    History: k ordinary requests answered normally, then the cost is pushed past the hard limit
    (public `bump_cost`), then the refused request."""
    jr, rawsocket, session_mod = (fresh_import(ctx.repo, 'aiorpcx.jsonrpc'),
                                  fresh_import(ctx.repo, 'aiorpcx.rawsocket'),
                                  fresh_import(ctx.repo, 'aiorpcx.session'))
    cases = []
    for proto in ('v1', 'v2', 'loose'):
        for before in (0, 2):
            for idv in (7, 'q', 0):
                cases.append({'proto': proto, 'before': before, 'id': idv, 'shape': 'single'})
                if proto != 'v1':
                    cases.append({'proto': proto, 'before': before, 'id': idv, 'shape': 'batch1'})
                    cases.append({'proto': proto, 'before': before, 'id': idv, 'shape': 'batch1+notifs'})

    if only is not None:
        cases = [{k: only[k] for k in ('proto', 'before', 'id', 'shape')}]

    def wire(proto, method, arg, idv=None, notif=False):
        m = {'method': method, 'params': [arg]}
        if proto == 'v2':
            m['jsonrpc'] = '2.0'
        if not notif:
            m['id'] = idv
        elif proto == 'v1':
            m['id'] = None
        return m

    async def one(c):
        proto = getattr(jr, PROTO_CLASS[c['proto']])

        class Server(session_mod.RPCSession):
            cost_soft_limit = 200
            cost_hard_limit = 500
            cost_sleep = 0

            def default_connection(self):
                return jr.JSONRPCConnection(proto)

            async def handle_request(self, request):
                return request.args[0]

        logging.disable(logging.CRITICAL)
        try:
            p, transport, session = make_session(rawsocket, Server, session_mod.SessionKind.SERVER)
            ok_before = 0
            for k in range(c['before']):
                p.data_received(json.dumps(wire(c['proto'], 'm', k, 1000 + k)).encode() + b'\n')
                await settle(10)
                out = take(transport)
                ok_before += int(len(out) == 1 and isinstance(out[0][0], dict)
                                 and out[0][0].get('id') == 1000 + k and out[0][0].get('result') == k)
            session.bump_cost(100000)
            req = wire(c['proto'], 'm', 5, c['id'])
            if c['shape'] == 'single':
                msg = req
            elif c['shape'] == 'batch1':
                msg = [req]
            else:
                # the request comes first: a refused NOTIFICATION ahead of it would start the
                # disconnect before the request's task has run (what a disconnect cuts short is
                # C03's subject, not judged here)
                msg = [req, wire(c['proto'], 'n', 1, notif=True), wire(c['proto'], 'n', 2, notif=True)]
            p.data_received(json.dumps(msg).encode() + b'\n')
            await settle(30)
            out = take(transport)
            return {'ok_before': ok_before, 'out': [o[0] for o in out], 'closing': transport.is_closing()}
        finally:
            logging.disable(logging.NOTSET)

    async def go():
        out = []
        for c in cases:
            try:
                out.append(await one(c))
            except (vloop.Deadlock, vloop.Livelock) as e:
                out.append({'hang': type(e).__name__})
        return out
    recs = vloop.run(go())
    for c, rec in zip(cases, recs):
        sc = dict(c, layer='session', family='refused-past-hard-limit')
        if 'hang' in rec:
            res.violation('c02:session-hang', sc, rec['hang'])
            continue
        if rec['ok_before'] != c['before']:
            res.violation('c02:request-not-answered@session', sc,
                          f'only {rec["ok_before"]} of {c["before"]} ordinary requests were answered '
                          f'with their result under their id')
            continue
        msgs = rec['out']
        entries = []
        for m in msgs:
            entries += m if isinstance(m, list) else [m]
        mine = [e for e in entries if isinstance(e, dict) and e.get('id') == c['id']
                and type(e.get('id')) is type(c['id'])]
        why = None
        if len(mine) == 0:
            why = (f'the refused request (id {c["id"]!r}) was never answered; written: {msgs}')
        elif len(mine) > 1:
            why = f'the refused request (id {c["id"]!r}) was answered {len(mine)} times: {msgs}'
        elif len(entries) != 1:
            why = f'{len(entries)} reply entries for one request: {msgs}'
        elif c['shape'] != 'single' and not isinstance(msgs[0], list):
            why = f'a batch was answered by a single message: {msgs}'
        elif c['shape'] == 'single' and isinstance(msgs[0], list):
            why = f'a single request was answered by a batch: {msgs}'
        elif mine[0].get('error') is None or 'result' in mine[0] and mine[0]['result'] is not None:
            why = f'the refused request was not answered with an error: {mine[0]}'
        res.count('session_refused_requests_judged')
        if why:
            res.violation('c02:request-not-answered@session' if len(mine) == 0 else
                          'c02:reply-count@session', sc, why)
    res['evaluations'] += len(cases)
    res['scopes']['session_refusal_scenarios'] = len(cases)


def _nonfinite_single(c):
    idv = c['single'].get('id') if isinstance(c['single'], dict) else None
    return isinstance(idv, float) and (idv != idv or abs(idv) > 1e300)


def limit_scenarios(jr):
    """the limit is changed by another request's handler (and by the operator) while the members
    of a batch are suspended in `handle_request`: the seeded C02-r3m3 history (received while
    unlimited, lowered, then an oversized result is supplied) and its relatives - raised, lowered
    between two supplies, 0 <-> positive, several times; for v2 and Loose"""
    from harness.c02 import PROTO_CLASS, WIRE
    out = []
    for proto in ('v2', 'loose'):
        cls = getattr(jr, PROTO_CLASS[proto])

        def req(m, idv):
            p = {'method': 'm', 'params': [m], 'id': idv}
            if proto == 'v2':
                p['jsonrpc'] = '2.0'
            return p
        for members, order in (([req(0, 1)], [0]), ([req(0, 1), req(1, 2)], [1, 0]),
                               ([req(0, 7), {'method': 'm', 'params': [1]}, req(2, 7)], [0, 2]),
                               ([5, req(1, 'a'), req(2, 'b')], [2, 1])):
            if proto == 'v2':
                members = [dict(m, jsonrpc='2.0') if isinstance(m, dict) else m for m in members]
            lens = [len(cls.response_message(result_for(jr, m, False)[0], members[m]['id']))
                    for m in order]
            run, pts = 0, []
            for l in lens:
                run += l + WIRE['inc']
                pts.append((0, l - 1, run - 1, run))
            import itertools
            for a in (0, min(lens) - 1, run):
                for lims in itertools.product(*pts):
                    for via in ('handler', 'attr'):
                        out.append({'proto': proto, 'max': a, 'members': members, 'order': order,
                                    'errs': [], 'lims': list(lims), 'via': via})
    return out


def replay(ctx, case, res):
    case = {k: v for k, v in case.items() if k != 'layer'}
    if case.get('family') == 'refused-past-hard-limit':
        return refusal_family(ctx, res, only=case)
    _evaluate(ctx, [case], res)
