"""C07 correspondence + search: real `BitcoinFramer` / `MessageSession` vs the Lean model
(`drv_c07`), and the property oracle (written from the property text, independent of the model)
on every implementation trace.

Case kinds
  recv : a framer (magic, max_payload_size, max_block_size) fed a chunk list; observed: the
         values / exception classes of successive `receive_message()` calls
  rt   : messages framed by the real `frame()`, concatenated, chunked, fed back (round trip);
         additionally the frame bytes are compared with the layout the property states
  sess : the same chunk list fed to a `MessageSession` on a fake transport that reports the loss
         at once / 2.5 ms after close() / not before abort(); observed: messages reaching
         `handle_message`, `session.errors`, transport closed?

Only the public surface of the library is touched (constructor keywords, `max_payload_size` set
on the instance, `frame`, `received_bytes`, `receive_message`, the exception classes,
`MessageSession.handle_message` / `.errors`); the probes live in harness/c07_fake.py and are
shared with tools/facts/c07.py.
"""
import asyncio
import hashlib
import itertools
import logging
import os
from multiprocessing import Pool

from harness import vloop, c07_fake
from harness.base import Results
from tools.facts.common import fresh_import

TOK = {'BadMagicError': 'Emagic', 'OversizedPayloadError': 'Esize', 'BadChecksumError': 'Ecksum'}
FATAL = ('BadMagicError', 'OversizedPayloadError')
DEFAULT_MAGIC = bytes.fromhex('e3e1f3e8')


# ---------------------------------------------------------------- what the property text says
def dsha4(p):
    return hashlib.sha256(hashlib.sha256(p).digest()).digest()[:4]


def mk_header(magic, cmd, n, ck):
    """magic, zero-padded command, little-endian length, checksum"""
    return magic + cmd + bytes(12 - len(cmd)) + n.to_bytes(4, 'little') + ck


def mk_frame(magic, cmd, payload):
    return mk_header(magic, cmd, len(payload), dsha4(payload)) + payload


BOTH = frozenset(FATAL)


def ref_walk(magic, mp, mb, stream):
    """The outcomes the property fixes: exact up to and including the first magic/size error
    (the text promises nothing about resynchronisation after those).  Returns
    (expected outcomes, exact?) - exact is False when the list stops at a magic/size error.
    An expected error is ('E', <set of acceptable classes>): a header that has the wrong magic
    AND an over-limit length may raise either error - the text fixes no order of the tests."""
    out, pos = [], 0
    while len(stream) - pos >= 24:
        h = stream[pos:pos + 24]
        n = int.from_bytes(h[16:20], 'little')
        cmd = h[4:16].rstrip(b'\0')
        bad_magic = h[:4] != magic
        over = n > mp and not (cmd == b'block' and n <= mb)
        if bad_magic or over:
            ok = BOTH if (bad_magic and over) else \
                frozenset(['BadMagicError'] if bad_magic else ['OversizedPayloadError'])
            out.append(('E', ok))
            return out, False
        if len(stream) - pos - 24 < n:
            break
        payload = stream[pos + 24:pos + 24 + n]
        if dsha4(payload) == h[20:24]:
            out.append(('M', cmd, payload))
        else:
            out.append(('E', frozenset(['BadChecksumError'])))
        pos += 24 + n
    return out, True


def same(e, g):
    """does observed outcome g satisfy expectation e"""
    if e[0] == 'E':
        return g[0] == 'E' and g[1] in e[1]
    return tuple(e) == tuple(g)


def first_diff(exp, got, exact):
    """index of the first outcome where the trace departs from what the text fixes, or None"""
    if not exact:
        got = got[:len(exp)]
    for k, (e, g) in enumerate(zip(exp, got)):
        if not same(e, g):
            return k
    if len(got) != len(exp):
        return min(len(got), len(exp))
    return None


def fmt_exp(e):
    if e is None:
        return 'nothing'
    if e[0] == 'E':
        return ' or '.join(TOK[c] for c in sorted(e[1]))
    return fmt_out([e])


def delivered_is_backed(magic, stream, cmd, payload):
    """'never delivered unless its checksum matches': somewhere in the stream there is a header
    with the magic, this length, this payload's checksum and this command, followed by the
    payload."""
    ck = dsha4(payload)
    ln = len(payload).to_bytes(4, 'little')
    start = 0
    while True:
        i = stream.find(magic, start)
        if i < 0:
            return False
        if (stream[i + 16:i + 20] == ln and stream[i + 20:i + 24] == ck
                and stream[i + 4:i + 16].rstrip(b'\0') == cmd and len(stream) >= i + 24 + len(payload)
                and stream[i + 24:i + 24 + len(payload)] == payload):
            return True
        start = i + 1


def oracle_recv(case, out):
    """None if the property holds on this trace, else (key, reason)."""
    magic, mp, mb = case['magic'], case['mp'], case['mb']
    stream = b''.join(case['chunks'])
    for o in out:
        if o[0] == 'X':
            return ('c07:unexpected-exception',
                    f'receive_message raised {o[1]} (only BadMagicError, OversizedPayloadError, '
                    'BadChecksumError are part of the contract)')
    sent = case.get('sent')
    if sent is not None:
        exp = [('M', c, p) for c, p in sent]
        if out != exp:
            for (c, p), o in zip(sent, out):
                if o != ('M', c, p):
                    if c.endswith(b'\0') and o == ('M', c.rstrip(b'\0'), p):
                        return ('c07:command-trailing-nul',
                                f'command {c!r} came back as {o[1]!r}')
                    break
            return ('c07:roundtrip', 'framed messages fed back are not received as sent')
    if len(magic) == 4:
        for o in out:
            if o[0] == 'M' and not delivered_is_backed(magic, stream, o[1], o[2]):
                return ('c07:corrupt-delivered',
                        'a payload was delivered that is not backed by a header carrying its '
                        'length and checksum')
    if sent is None:
        exp, exact = ref_walk(magic, mp, mb, stream)
        i = first_diff(exp, out, exact)
        if i is not None:
            e = exp[i] if i < len(exp) else None
            g = out[i] if i < len(out) else None
            if e and e[0] == 'M' and (g is None or g[0] == 'E'):
                key = 'c07:valid-not-delivered'
            elif g and g[0] == 'M' and e and e[0] == 'E':
                key = 'c07:delivered-despite-error'
            elif e and g and e[0] == 'E' and g[0] == 'E':
                key = 'c07:wrong-error-class'
            else:
                key = 'c07:out-of-sync'
            return (key, f'outcome #{i}: property says {fmt_exp(e)}, '
                         f'implementation gave {fmt_out([g]) if g else "nothing"}')
    return None


def oracle_sess(case, obs):
    """Session part of the property - "a message session counts each such error and, for magic
    and size errors, closes the connection" - judged on the framer outcomes the session actually
    saw; plus "never delivered unless the checksum matches" at the `handle_message` end.  What
    the text does not say (the order in which `handle_message` is called, that every received
    message is handled, that the connection is closed ONLY for magic/size errors) is compared
    with the model, not judged here."""
    ev = obs['events']
    for e in ev:
        if e[0] == 'X':
            return ('c07:unexpected-exception', f'receive_message raised {e[1]}')
    nerr = sum(1 for e in ev if e[0] == 'E')
    fatal = any(e[0] == 'E' and e[1] in FATAL for e in ev)
    msgs = [(e[1], e[2]) for e in ev if e[0] == 'M']
    if obs['errors'] != nerr:
        return ('c07:session-error-count',
                f'{nerr} framing errors were raised to the session, session.errors = {obs["errors"]}')
    if fatal and not obs['closed']:
        return ('c07:session-close',
                'a magic/size error was raised to the session and the connection was not closed')
    pool = list(msgs)
    for m in obs['delivered']:
        if m in pool:
            pool.remove(m)
        else:
            return ('c07:session-delivery',
                    'handle_message got a message the framer did not deliver (or got it twice)')
    # and the framer inside the session obeys the framing part
    exp, exact = ref_walk(case['magic'], case['mp'], case['mb'], b''.join(obs['fed']))
    if first_diff(exp, ev, exact) is not None:
        return ('c07:session-framing', 'the session\'s framer outcomes differ from the property')
    return None


# ---------------------------------------------------------------- formatting
def hx(b):
    return bytes(b).hex() or '-'


def fmt_out(out):
    if not out:
        return '.'
    return ' '.join(f'M{hx(o[1])}:{hx(o[2])}' if o[0] == 'M' else
                    (TOK[o[1]] if o[0] == 'E' else f'X:{o[1]}') for o in out)


# g of the model for the three loss timings; the first two are *measured* by tools/facts/c07.py
# on this tree (how many further magic/size errors the loop counts before the loss reaches it)
G_OF_LOSE = {0: 0, 0.0025: 2, None: 1000000}
_size_first = 0


def _read_facts(facts):
    global _size_first
    facts = facts or {}
    _size_first = 1 if facts.get('size_first') else 0
    G_OF_LOSE[0] = facts.get('g_soon', 0)
    G_OF_LOSE[0.0025] = facts.get('g_late', 2)
    G_OF_LOSE[None] = facts.get('g_never', 1000000)


def model_line(case, fed=None):
    """`fed`: for a session case the chunks the transport really delivered (it delivers nothing
    after close())"""
    head = f'{hx(case["magic"])} {case["mp"]} {case["mb"]} {_size_first}'
    if case['k'] == 'sess':
        chunks = case['chunks'] if fed is None else fed
        return f'sess {head} {G_OF_LOSE[case.get("lose", 0)]} ' + ' '.join(hx(c) for c in chunks)
    return f'recv {head} ' + ' '.join(hx(c) for c in case['chunks'])


def fmt_sess(obs):
    return (f'errors={obs["errors"]} closed={1 if obs["closed"] else 0} '
            + fmt_out([('M', c, p) for c, p in obs['delivered']]))


def case_json(case):
    j = {'k': case['k'], 'magic': case['magic'].hex(), 'mp': case['mp'], 'mb': case['mb'],
         'chunks': [c.hex() for c in case['chunks']], 'mode': case.get('mode', 1),
         'tag': case.get('tag', '')}
    if case.get('sent') is not None:
        j['sent'] = [[c.hex(), p.hex()] for c, p in case['sent']]
    if 'kind' in case:
        j['kind'] = case['kind']
    if case.get('default_class'):
        j['default_class'] = True
    if case['k'] == 'sess':
        j['lose'] = case.get('lose', 0)
    return j


def case_from_json(j):
    c = {'k': j['k'], 'magic': bytes.fromhex(j['magic']), 'mp': j['mp'], 'mb': j['mb'],
         'chunks': [bytes.fromhex(x) for x in j['chunks']], 'mode': j.get('mode', 1),
         'tag': j.get('tag', 'replay')}
    if 'sent' in j:
        c['sent'] = [(bytes.fromhex(a), bytes.fromhex(b)) for a, b in j['sent']]
    if 'kind' in j:
        c['kind'] = j['kind']
    if j.get('default_class'):
        c['default_class'] = True
    if j['k'] == 'sess':
        c['lose'] = j.get('lose', 0)
    return c


# ---------------------------------------------------------------- implementation side
_mods = None


class ProbeFailed(Exception):
    """the harness cannot set the payload limit on this tree: machinery, not a verdict"""


def _init(repo):
    global _mods
    logging.disable(logging.CRITICAL)
    framing = fresh_import(repo, 'aiorpcx.framing')
    session = fresh_import(repo, 'aiorpcx.session')
    rawsocket = fresh_import(repo, 'aiorpcx.rawsocket')
    _mods = (framing, session, rawsocket)


def _new_framer(case, base=None):
    return c07_fake.new_framer(_mods[0], case['magic'], case['mp'], case['mb'],
                               default_class=case.get('default_class'), base=base)


async def _impl_recv(case):
    return await c07_fake.recv_outcomes(_mods[0], _new_framer(case), case['chunks'],
                                        mode=case.get('mode', 1))


async def _impl_sess(case):
    framing, session, rawsocket = _mods
    events = []
    lost = getattr(rawsocket, 'ConnectionLostError', ())   # how the transport ends the reader

    class RecordingFramer(framing.BitcoinFramer):
        async def receive_message(self):
            try:
                m = await super().receive_message()
            except asyncio.CancelledError:
                raise
            except Exception as e:
                kind = c07_fake.classify(framing, e)
                if kind[0] == 'E' or not isinstance(e, lost):
                    events.append(kind)
                raise
            events.append(('M', bytes(m[0]), bytes(m[1])))
            return m

    obs = await c07_fake.sess_observe(
        _mods, _new_framer(case, base=RecordingFramer), case['chunks'],
        kind=case.get('kind', 'server'), lose=case.get('lose', 0), mode=case.get('mode', 1))
    obs['events'] = list(events)
    return obs


def check_limit_probe(repo):
    """the small limits of the cases are set on the framer *instance*; make sure that moves the
    limit on this tree (otherwise every small-limit case would silently run with the default)"""
    _init(repo)
    if not vloop.run(c07_fake.limit_takes_effect(_mods[0])):
        raise ProbeFailed('setting max_payload_size on a BitcoinFramer instance does not change '
                          'the limit it enforces; the harness cannot build its cases')


def _run_batch(cases):
    async def go(batch):
        asyncio.get_event_loop().set_exception_handler(lambda loop, ctx: None)
        res = []
        for case in batch:
            try:
                if case['k'] == 'sess':
                    res.append(await _impl_sess(case))
                else:
                    res.append(await _impl_recv(case))
            except Exception as e:
                # constructor / plumbing failures are observations of the implementation too
                res.append({'hang': type(e).__name__} if case['k'] == 'sess'
                           else [('X', type(e).__name__)])
        return res
    try:
        return vloop.run(go(cases))
    except (vloop.Deadlock, vloop.Livelock):
        pass
    # something span or starved the loop: find out which case, one loop per case
    res = []
    for case in cases:
        try:
            res.extend(vloop.run(go([case])))
        except (vloop.Deadlock, vloop.Livelock) as e:
            res.append({'hang': type(e).__name__} if case['k'] == 'sess'
                       else [('X', type(e).__name__)])
    return res


def run_impl(ctx, cases):
    if len(cases) < 6000:
        _init(ctx.repo)
        return _run_batch(cases)
    nproc = min(12, os.cpu_count() or 1)
    size = max(1500, len(cases) // (nproc * 3))
    jobs = [cases[i:i + size] for i in range(0, len(cases), size)]
    with Pool(nproc, initializer=_init, initargs=(ctx.repo,)) as pool:
        parts = pool.map(_run_batch, jobs)
    return [r for p in parts for r in p]


# ---------------------------------------------------------------- evaluation
def evaluate(ctx, cases, res):
    if not cases:
        return []
    _read_facts(ctx.facts)
    outs = run_impl(ctx, cases)
    model = ctx.model([model_line(c, o.get('fed') if isinstance(o, dict) else None)
                       for c, o in zip(cases, outs)])
    for i, (case, out) in enumerate(zip(cases, outs)):
        if case['k'] == 'sess':
            if 'hang' in out:
                res.violation('c07:session-hang', case_json(case), f'session run ended in {out["hang"]}')
                continue
            got = fmt_sess(out)
            verdict = oracle_sess(case, out)
            res.count('sess_cases')
            res.count('sess_lose_' + {0: 'soon', 0.0025: '2.5ms', None: 'never'}[case.get('lose', 0)])
            res.count('sess_read_on_after_fatal',
                      any(e[0] == 'E' and e[1] in FATAL for e in out['events'][:-1]))
            res.count('sess_closed', out['closed'])
            res.count('sess_errors_counted', out['errors'])
            res.count('sess_messages_handled', len(out['delivered']))
            if out['closed'] and out['delivered']:
                res.nontrivial(('s', case['magic'], case['mp'], case['mb'], tuple(case['chunks']),
                                case.get('lose', 0)))
        else:
            got = fmt_out(out)
            verdict = oracle_recv(case, out)
            res.count('recv_cases')
            for o in out:
                res.count('out_' + ('delivered' if o[0] == 'M' else o[1]))
            res.count('cases_with_empty_chunk', any(len(c) == 0 for c in case['chunks']))
            consumed = sum(24 + len(o[2]) if o[0] == 'M' else 24 for o in out)
            res.count('cases_with_unconsumed_tail', consumed < sum(len(c) for c in case['chunks']))
            if len(case['chunks']) >= 2 and out:
                res.nontrivial(('r', case['magic'], case['mp'], case['mb'], tuple(case['chunks'])))
        res.count('tag_' + case.get('tag', '?'))
        short = (lambda t: t if len(t) < 4000 else t[:1500] + f'...({len(t)} chars)...' + t[-500:])
        if verdict:
            res.violation(verdict[0], case_json(case), verdict[1][:600], impl=short(got))
        if model is not None and model[i] != got:
            res.disagreement(case_json(case), short(got), short(model[i]))
    res['evaluations'] += len(cases)
    return outs


def check_frames(ctx, msgs_by_magic, res):
    """`frame((cmd, payload))` of the real class vs the layout in the property text, and vs the
    model's `frame`."""
    _init(ctx.repo)
    framing = _mods[0]
    lines, got = [], []
    for magic, cmd, payload in msgs_by_magic:
        fr = framing.BitcoinFramer(magic=magic)
        try:
            b = fr.frame((cmd, payload))
            g = 'ok ' + hx(b)
            if len(cmd) <= 12:
                want = mk_frame(magic, cmd, payload)
                if b != want:
                    res.violation('c07:header-layout',
                                  {'k': 'frame', 'magic': magic.hex(), 'cmd': cmd.hex(), 'payload': payload.hex()},
                                  'frame() is not magic + zero-padded command + LE length + '
                                  'sha256d[:4] + payload', impl=b.hex())
        except Exception as e:
            g = 'ValueError' if isinstance(e, ValueError) else \
                ('struct.error' if type(e).__name__ == 'error' else 'X:' + type(e).__name__)
            if len(cmd) <= 12:
                res.violation('c07:frame-raises',
                              {'k': 'frame', 'magic': magic.hex(), 'cmd': cmd.hex(), 'payload': payload.hex()},
                              f'frame() raised {type(e).__name__} for a command of {len(cmd)} bytes')
        got.append(g)
        lines.append(f'frame {hx(magic)} {hx(cmd)} {hx(payload)}')
    model = ctx.model(lines)
    for i, g in enumerate(got):
        res.count('frame_calls')
        res.count('frame_raised', g in ('ValueError', 'struct.error'))
        if model is not None and model[i] != g:
            magic, cmd, payload = msgs_by_magic[i]
            res.disagreement({'k': 'frame', 'magic': magic.hex(), 'cmd': cmd.hex(),
                              'payload': payload.hex()}, g, model[i])
    res['evaluations'] += len(got)


def check_reused_buffers(ctx, msgs, res):
    """Oracle only: "(command, payload) SEQUENCES" whose payloads are one mutable buffer that the
    caller reuses - framed, changed in place (same length / longer / shorter), framed again, on the
    same and on another framer object, with no other checksum computed in between.  Every frame
    must be the layout of the property text for the payload AS IT IS when frame() is called."""
    _init(ctx.repo)
    framing = _mods[0]
    for magic, cmd, payload in msgs:
        if len(cmd) > 12 or not payload:
            continue
        for edit in ('flip', 'grow', 'shrink'):
            for other_framer in (False, True):
                buf = bytearray(payload)
                fr1 = framing.BitcoinFramer(magic=magic)
                fr2 = framing.BitcoinFramer(magic=magic) if other_framer else fr1
                case = {'k': 'frame-reused', 'magic': magic.hex(), 'cmd': cmd.hex(),
                        'payload': payload.hex(), 'edit': edit, 'other_framer': other_framer}
                try:
                    b1 = bytes(fr1.frame((cmd, buf)))
                    want1 = mk_frame(magic, cmd, bytes(buf))
                    if edit == 'flip':
                        buf[len(buf) // 2] ^= 0x5a
                    elif edit == 'grow':
                        buf += b'\x00tail'
                    else:
                        del buf[-1:]
                    b2 = bytes(fr2.frame((cmd, buf)))
                    want2 = mk_frame(magic, cmd, bytes(buf))
                except Exception as e:
                    res.violation('c07:frame-raises', case,
                                  f'frame() raised {type(e).__name__} for a bytearray payload')
                    continue
                res.count('frame_calls_reused_buffer', 2)
                if b1 != want1 or b2 != want2:
                    which = 'first' if b1 != want1 else 'second (after the buffer was changed in place)'
                    res.violation('c07:header-layout', case,
                                  f'the {which} frame of a reused mutable payload buffer is not magic + '
                                  f'zero-padded command + LE length + sha256d[:4] + payload',
                                  impl=(b1 if b1 != want1 else b2).hex()[:200])
        res['evaluations'] += 6


# ---------------------------------------------------------------- case generation
def chunk_whole(s):
    return [s]


def chunk_bytes(s):
    return [s[i:i + 1] for i in range(len(s))]


def chunk_at(s, cuts):
    out, start = [], 0
    for c in sorted(set(cuts)):
        if 0 < c < len(s):
            out.append(s[start:c])
            start = c
    out.append(s[start:])
    return out


def chunk_random(rng, s, big=40):
    chunks, i = [], 0
    while i < len(s):
        r = rng.random()
        if r < 0.08:
            chunks.append(b'')
        step = 1 if r < 0.3 else rng.randint(1, big)
        chunks.append(s[i:i + step])
        i += step
    if rng.random() < 0.15:
        chunks.append(b'')
    return chunks


def flip(s, bits):
    b = bytearray(s)
    for bit in bits:
        b[bit // 8] ^= 1 << (bit % 8)
    return bytes(b)


def recv_case(magic, mp, mb, chunks, tag, mode=1, **kw):
    return dict(k='recv', magic=magic, mp=mp, mb=mb, chunks=[bytes(c) for c in chunks], tag=tag,
                mode=mode, **kw)


def as_sess(case, rng):
    c = dict(case)
    c['k'] = 'sess'
    c.pop('sent', None)
    nerr = sum(1 for o in ref_walk(c['magic'], c['mp'], c['mb'], b''.join(c['chunks']))[0] if o[0] == 'E')
    # when does the fake transport report the loss after close(): at once / 2.5 ms later (two more
    # magic/size errors are processed) / not before abort()
    c['lose'] = rng.choice([0, 0, 0.0025, None])
    # a SERVER session throttles / disconnects on accumulated *cost* (C14), which is another
    # property: keep the error cost of server cases below the soft limit (a session that reads
    # on after a magic/size error can count many more errors)
    c['kind'] = 'client' if nerr > 6 or c['lose'] != 0 or rng.random() < 0.5 else 'server'
    return c


SHAPES = [(b'ver', b''), (b'tx', b'\x01\x02\x03\x04\x05'), (b'block', bytes(range(12)))]
BIT_CFG = (8, 16)


def bitflip_cases(rng, deep):
    mp, mb = BIT_CFG
    magic = DEFAULT_MAGIC
    tail = mk_frame(magic, b'next', b'zz')
    cases = []
    for cmd, payload in SHAPES:
        good = mk_frame(magic, cmd, payload)
        for bit in range(192):
            s = flip(good, [bit]) + tail
            cases.append(recv_case(magic, mp, mb, chunk_whole(s), 'hdr-flip1', mode=bit % 3))
            cases.append(recv_case(magic, mp, mb, chunk_bytes(s), 'hdr-flip1', mode=(bit + 1) % 3))
            cases.append(recv_case(magic, mp, mb, chunk_at(s, [24, 24 + len(payload)]), 'hdr-flip1'))
            cases.append(recv_case(magic, mp, mb, chunk_random(rng, s, 9), 'hdr-flip1', mode=rng.randrange(3)))
        for bit in range(192, 192 + 8 * len(payload)):
            s = flip(good, [bit]) + tail
            cases.append(recv_case(magic, mp, mb, chunk_whole(s), 'payload-flip1'))
            cases.append(recv_case(magic, mp, mb, chunk_random(rng, s, 9), 'payload-flip1', mode=rng.randrange(3)))
        total = len(good) * 8
        pairs = list(itertools.combinations(range(192), 2))
        if not deep:
            pairs = rng.sample(pairs, 250)
        for a, b in pairs:
            s = flip(good, [a, b]) + tail
            cases.append(recv_case(magic, mp, mb, chunk_random(rng, s, 30), 'hdr-flip2', mode=rng.randrange(3)))
        for _ in range(3000 if deep else 300):
            k = rng.randint(2, 6)
            s = flip(good, rng.sample(range(total), k)) + tail
            cases.append(recv_case(magic, mp, mb, chunk_random(rng, s, 30), 'multi-flip', mode=rng.randrange(3)))
    return cases


BOUND_CFGS = [(0, 0), (0, 3), (1, 1), (5, 9), (9, 5), (8, 8), (3, 300)]
BOUND_CMDS = [b'block', b'blocks', b'bloc', b'', b'x', b'Block', b'\0block', b'blo\0ck']


def boundary_cases(rng):
    magic = bytes.fromhex('0b110907')
    tail = mk_frame(magic, b'after', b'\x07')
    cases = []
    for mp, mb in BOUND_CFGS:
        lens = sorted(set(list(range(0, min(max(mp, mb), 12) + 3)) +
                          [mp - 1, mp, mp + 1, mb - 1, mb, mb + 1, mp + 256, mb + 256, mp + 65536,
                           2 ** 32 - 1, 2 ** 31]))
        for cmd in BOUND_CMDS:
            for n in lens:
                if n < 0:
                    continue
                if n <= 400:
                    payload = bytes((7 * i + n) % 256 for i in range(n))
                    s = mk_frame(magic, cmd, payload) + tail
                    cases.append(recv_case(magic, mp, mb, chunk_at(s, [24]), 'size-boundary', mode=n % 3))
                    cases.append(recv_case(magic, mp, mb, chunk_random(rng, s, 7), 'size-boundary',
                                           mode=rng.randrange(3)))
                else:
                    # only the header (and a little more): accepted -> waits, rejected -> error
                    s = mk_header(magic, cmd, n, bytes(4)) + tail
                    cases.append(recv_case(magic, mp, mb, chunk_whole(s), 'size-boundary-far'))
    return cases


def default_limit_cases(facts):
    """the unmodified class with its default constants (read from the facts, so the model gets
    the same numbers)"""
    mp, mb = facts['max_payload_size'], facts['max_block_size']
    magic = bytes(facts['default_magic'])
    cases = []
    for cmd in (b'block', b'tx'):
        for n in sorted({0, mp - 1, mp, mp + 1, mb - 1, mb, mb + 1}):
            if 0 <= n < 2 ** 32:
                s = mk_header(magic, cmd, n, bytes(4)) + mk_frame(magic, b'x', b'')
                cases.append(recv_case(magic, mp, mb, chunk_whole(s), 'default-limits',
                                       default_class=True))
    s = mk_frame(magic, b'ping', b'12345678') + mk_frame(magic, b'block', bytes(100))
    cases.append(recv_case(magic, mp, mb, chunk_bytes(s), 'default-limits', default_class=True))
    return cases


MAGICS = [DEFAULT_MAGIC, bytes(4), b'\xff' * 4, bytes.fromhex('f9beb4d9'), b'abc', b'abcde', b'']


def magic_cases(rng):
    cases = []
    for m in MAGICS:
        for other in MAGICS:
            if len(other) != 4:
                continue
            # framed (by the layout in the text) with magic `other`, read with magic `m`
            s = mk_frame(other, b'hello', b'world') + mk_frame(other, b'', b'')
            cases.append(recv_case(m, 10, 20, chunk_random(rng, s, 12), 'magics', mode=rng.randrange(3)))
        for bit in range(32):
            if len(m) == 4:
                s = flip(mk_frame(m, b'a', b'b'), [bit]) + mk_frame(m, b'c', b'd')
                cases.append(recv_case(m, 10, 20, chunk_whole(s), 'magics'))
    return cases


def chunking_cases(maxcuts):
    magic = DEFAULT_MAGIC
    s = mk_frame(magic, b'a', b'\x01') + mk_frame(magic, b'', b'') + mk_frame(magic, b'block', b'123456')[:27]
    n = len(s)
    cases = []
    for k in range(0, maxcuts + 1):
        for cuts in itertools.combinations(range(1, n), k):
            ch = chunk_at(s, cuts)
            cases.append(recv_case(magic, 4, 8, ch, 'all-chunkings', mode=(len(cases)) % 3))
    # empty chunks anywhere
    for i in range(0, n + 1, 5):
        cases.append(recv_case(magic, 4, 8, [s[:i], b'', b'', s[i:], b''], 'all-chunkings'))
    return cases


def large_cases():
    """Deterministic (identical for every seed): payloads around 64 KiB and of a few hundred KB
    whose final chunk ends exactly at the frame boundary / one byte before / one byte after,
    under several chunkings of what precedes, followed by two more messages (a small one and an
    empty one) that must come out intact."""
    magic = DEFAULT_MAGIC
    cases = []
    for n in (65535, 65536, 65537, 131072, 262144):
        payload = bytes((i * 7 + n) % 251 for i in range(n))
        s = mk_frame(magic, b'big', payload) + mk_frame(magic, b'next', b'1') + mk_frame(magic, b'last', b'')
        end = 24 + n
        pres = [[24], [10], [24, 24 + n // 2], list(range(16384, end - 1, 16384)), []]
        if n > 65537:
            pres = pres[:1] + pres[3:]
        for pre in pres:
            for d in (-1, 0, 1):
                for tail in ([], [end + 25]):
                    cuts = [c for c in pre if c < end + d] + [end + d] + tail
                    cases.append(recv_case(magic, 300000, 300000, chunk_at(s, cuts), 'large-payload',
                                           mode=len(cases) % 3))
        cases.append(recv_case(magic, 300000, 300000, [s], 'large-payload', mode=0))
    return cases


CMDS = [b'', b'a', b'ver', b'version', b'block', b'blocks', b'getheaders', b'123456789012',
        b'\0lead', b'in\0side', b'\xff\xfe', b'sp ', b'tab\t', b'nl\n', b' lead', b'0', b'\x01',
        b'eleven  ..\r', b'BLOCK', b'block ']


def random_payload(rng, mp, mb, cmd):
    r = rng.random()
    if r < 0.2:
        n = 0
    elif r < 0.5:
        n = rng.randint(0, mp)
    elif r < 0.7:
        n = max(0, mp + rng.randint(-1, 1))
    elif r < 0.85 and cmd == b'block':
        n = max(0, mb + rng.randint(-1, 0))
    else:
        n = rng.randint(0, max(mp, 1))
    return bytes(rng.randrange(256) for _ in range(n))


def random_stream_case(rng):
    magic = rng.choice(MAGICS[:4])
    mp = rng.choice([0, 1, 4, 16, 40])
    mb = rng.choice([0, 8, 50, 64])
    parts = []
    for _ in range(rng.randint(1, 6)):
        cmd = rng.choice(CMDS)
        r = rng.random()
        if r < 0.62:
            parts.append(mk_frame(magic, cmd, random_payload(rng, mp, mb, cmd)))
        elif r < 0.74:
            p = random_payload(rng, mp, mb, cmd)
            parts.append(mk_header(magic, cmd, len(p), flip(dsha4(p), [rng.randrange(32)])) + p)
        elif r < 0.80:
            p = random_payload(rng, mp, mb, cmd) + b'!'
            parts.append(mk_header(magic, cmd, len(p), dsha4(p)) + flip(p, [rng.randrange(8 * len(p))]))
        elif r < 0.86:
            parts.append(mk_frame(flip(magic, [rng.randrange(32)]), cmd, b'x'))
        elif r < 0.93:
            n = max(mp, mb if cmd == b'block' else 0) + rng.randint(1, 3)
            parts.append(mk_header(magic, cmd, n, bytes(4)))
        else:
            parts.append(bytes(rng.randrange(256) for _ in range(rng.randint(1, 40))))
    s = b''.join(parts)
    if rng.random() < 0.25:
        s = s[:rng.randint(0, len(s))]
    if rng.random() < 0.2 and s:
        s = flip(s, [rng.randrange(8 * len(s)) for _ in range(rng.randint(1, 3))])
    return recv_case(magic, mp, mb, chunk_random(rng, s, rng.choice([3, 30, 100])), 'random-stream',
                     mode=rng.randrange(3))


def random_command(rng, trailing_nul=False):
    n = rng.randint(0, 12)
    c = bytes(rng.choice(b'abxyz\x00\x00\xff0 \t\n') for _ in range(n))
    if trailing_nul:
        c = c[:rng.randint(0, 11)] + b'\0'
    else:
        c = c.rstrip(b'\0')
    return c


def roundtrip_cases(rng, n, framing):
    """messages framed by the REAL frame(); every command has at most 12 bytes and does not end
    in NUL (those are the F17 cases, generated separately)"""
    cases = []
    for _ in range(n):
        magic = rng.choice(MAGICS[:4])
        mp = rng.choice([0, 3, 16, 64])
        mb = rng.choice([0, 32, 100])
        fr = framing.BitcoinFramer(magic=magic)
        sent = []
        for _ in range(rng.randint(1, 5)):
            cmd = rng.choice(CMDS) if rng.random() < 0.5 else random_command(rng)
            limit = mb if (cmd == b'block' and mb > mp) else mp
            r = rng.random()
            ln = limit if r < 0.3 else (0 if r < 0.4 else rng.randint(0, limit))
            sent.append((cmd, bytes(rng.randrange(256) for _ in range(ln))))
        try:
            s = b''.join(fr.frame(m) for m in sent)
        except Exception:
            # frame() refusing a <=12-byte command is reported by check_frames
            continue
        cases.append(recv_case(magic, mp, mb, chunk_random(rng, s, rng.choice([2, 25, 200])),
                               'roundtrip', mode=rng.randrange(3), sent=sent))
    return cases


def trailing_nul_cases(rng, n, framing):
    cases = []
    fr = framing.BitcoinFramer()
    for i in range(n):
        cmd = b'ab\0' if i == 0 else random_command(rng, trailing_nul=True)
        payload = b'' if i == 0 else bytes(rng.randrange(256) for _ in range(rng.randint(0, 4)))
        try:
            s = fr.frame((cmd, payload))
        except Exception:
            continue                    # reported by check_frames
        cases.append(recv_case(DEFAULT_MAGIC, 8, 8, chunk_random(rng, s, 30), 'trailing-nul',
                               sent=[(cmd, payload)]))
    return cases


def frame_inputs(rng, n):
    out = [(DEFAULT_MAGIC, b'', b''), (DEFAULT_MAGIC, b'x' * 12, b'p'), (DEFAULT_MAGIC, b'x' * 13, b''),
           (DEFAULT_MAGIC, b'x' * 40, b'abc'), (b'abc', b'ver', b'1'), (b'', b'', b'')]
    for _ in range(n):
        magic = rng.choice(MAGICS)
        cmd = bytes(rng.randrange(256) for _ in range(rng.choice([0, 1, 5, 11, 12, 12, 13, 14, 20])))
        ln = rng.choice([0, 1, 2, 55, 56, 63, 64, 65, 119, 120, 255, 256, 257, 1000])
        out.append((magic, cmd, bytes(rng.randrange(256) for _ in range(ln))))
    return out


def corpus_cases(verif):
    """corpus/C07.txt: `recv|sess|sess-late|sess-never|rt <magic> <mp> <mb> <chunk or
    cmd:payload> ...` (sess: loss reported at once, -late: 2.5 ms after close(), -never: not
    before abort())"""
    path = os.path.join(verif, 'corpus', 'C07.txt')
    out = []
    if not os.path.exists(path):
        return out
    for line in open(path):
        t = line.split('#')[0].split()
        if not t:
            continue
        un = lambda x: b'' if x == '-' else bytes.fromhex(x)
        magic, mp, mb = un(t[1]), int(t[2]), int(t[3])
        if t[0] == 'rt':
            sent = [tuple(un(x) for x in tok.split(':')) for tok in t[4:]]
            out.append(('rt', magic, mp, mb, sent))
        else:
            c = recv_case(magic, mp, mb, [un(x) for x in t[4:]], 'corpus')
            c['k'] = 'sess' if t[0].startswith('sess') else t[0]
            if c['k'] == 'sess':
                c['lose'] = {'sess': 0, 'sess-late': 0.0025, 'sess-never': None}[t[0]]
                c['kind'] = 'server' if c['lose'] == 0 else 'client'
                c['mode'] = 0
            out.append(c)
    return out


RULE = ('case = (kind, magic, max_payload_size, max_block_size, chunk list, feeding schedule); '
        'exhaustive: every single-bit flip of the 192 header bits and of every payload bit of 3 '
        'message shapes x 4 chunkings, every declared length 0..limit+2 (and far values) x 8 '
        'command variants x 7 limit configurations, every cut set up to the stated size of a '
        '3-message stream, 7 magics x 4 foreign magics; sampled: double / multi-bit flips, '
        'seeded random streams of valid / bad-checksum / bad-magic / oversize / garbage items '
        'with random truncation, flips and chunkings (empty chunks included); 100 fixed cases '
        'with payloads of 64 KiB - 1 .. 256 KiB whose final chunk ends at the frame boundary '
        '-1/0/+1 under 5 chunkings, followed by two more messages; round trips '
        'through the real frame(); the same streams through a MessageSession on a fake '
        'transport that reports the loss at once / 2.5 ms after close() / not before abort(); '
        'non-trivial = at least 2 chunks and at least one outcome (recv) or closed '
        'after at least one handled message (sess); distinct = distinct case tuples')


def run(ctx):
    res = Results()
    rng = ctx.rng
    deep = ctx.deep
    check_limit_probe(ctx.repo)
    framing = _mods[0]
    # (a) corpus of past failures first (F17 witness is the first line)
    cc = corpus_cases(ctx.verif)
    todo = []
    for c in cc:
        if isinstance(c, tuple):
            _, magic, mp, mb, sent = c
            try:
                fr = framing.BitcoinFramer(magic=magic)
                s = b''.join(fr.frame(m) for m in sent)
            except Exception:
                continue
            todo.append(recv_case(magic, mp, mb, chunk_at(s, [7, 24, 30]), 'corpus', sent=sent))
        else:
            todo.append(c)
    evaluate(ctx, todo, res)
    res['scopes']['corpus'] = len(todo)
    # (b) frame(): layout from the property text + model
    fi = frame_inputs(rng, 1500 if deep else 300)
    check_frames(ctx, fi, res)
    check_reused_buffers(ctx, fi[:120], res)
    res['scopes']['frame_calls'] = len(fi)
    # (c) exhaustive small scopes
    ex = []
    ex += bitflip_cases(rng, deep)
    ex += boundary_cases(rng)
    ex += default_limit_cases(ctx.facts)
    ex += magic_cases(rng)
    ex += chunking_cases(3 if deep else 2)
    evaluate(ctx, ex, res)
    res['scopes']['exhaustive'] = {
        'header_bits_flipped': 192, 'shapes': len(SHAPES), 'limit_configs': BOUND_CFGS,
        'command_variants': len(BOUND_CMDS), 'chunking_max_cuts': 3 if deep else 2,
        'cases': len(ex)}
    # (c') large payloads ending exactly at / next to a chunk boundary: the same cases for every seed
    lg = large_cases()
    louts = evaluate(ctx, lg, res)
    lsess = [dict(as_sess(c, rng), lose=0, kind='client') for c in lg[::7]]
    evaluate(ctx, lsess, res)
    res['scopes']['large_payloads'] = {'recv': len(lg), 'sess': len(lsess)}
    # (d) round trips through the real frame(), F17 family
    rt = roundtrip_cases(rng, 20000 if deep else 2500, framing)
    rt += trailing_nul_cases(rng, 200 if deep else 30, framing)
    evaluate(ctx, rt, res)
    res['scopes']['roundtrip'] = len(rt)
    # (e) seeded random streams
    gen = [random_stream_case(rng) for _ in range(250000 if deep else 16000)]
    outs = evaluate(ctx, gen, res)
    for c, o in list(zip(gen, outs))[:3]:
        res.sample({'case': model_line(c), 'impl': fmt_out(o)})
    res['scopes']['generated'] = len(gen)
    # (f) MessageSession on the fake transport: a sample of everything above
    pool = ex + gen
    k = min(len(pool), 40000 if deep else 4000)
    ss = [as_sess(c, rng) for c in rng.sample(pool, k)]
    ss += [as_sess(c, rng) for c in default_limit_cases(ctx.facts)]
    souts = evaluate(ctx, ss, res)
    for c, o in list(zip(ss, souts))[:2]:
        if isinstance(o, dict) and 'hang' not in o:
            res.sample({'case': model_line(c), 'impl': fmt_sess(o), 'transport_log': o['log'][:6]})
    res['scopes']['session'] = len(ss)
    return res.finish(RULE, exhaustive=True)


def replay(ctx, case):
    if 'case' in case and isinstance(case['case'], dict):
        case = case['case']
    res = Results()
    check_limit_probe(ctx.repo)
    if case.get('k') == 'frame-reused':
        check_reused_buffers(ctx, [(bytes.fromhex(case['magic']), bytes.fromhex(case['cmd']),
                                    bytes.fromhex(case['payload']))], res)
    elif case.get('k') == 'frame':
        check_frames(ctx, [(bytes.fromhex(case['magic']), bytes.fromhex(case['cmd']),
                            bytes.fromhex(case['payload']))], res)
    else:
        evaluate(ctx, [case_from_json(case)], res)
    res.sample(case)
    return res.finish('replay of one recorded case')
