#!/bin/sh
# Build the framework offline from files on disk: regenerate the facts from /repo, then build
# every proof module and every model driver.
set -e
cd "$(dirname "$0")"
mkdir -p .work evidence replays
/venv/bin/python - <<'PY'
import glob, os, sys
sys.path.insert(0, os.getcwd())
from lib import vcheck
for p in sorted(glob.glob('props/C*.json')):
    pid = os.path.basename(p)[:-5]
    vcheck.extract_facts(vcheck.load_registry(pid).get('facts_pid', pid))
    print('facts', pid)
PY
cd lean
lake build 2>&1 | tail -5
